"""Set-iteration audit (determinism obligations of C23 / C32).

In A-PY a `set` is an unordered finite set: iterating it yields its elements in an arbitrary
permutation (this is what the hash seed changes).  Emitted text is a function of the declarations
only if no iteration order of a set can reach it.  This audit finds, by type inference over the AST of
the real source, every expression that is a set (set()/frozenset()/set literal/set comprehension,
names and attributes assigned from those, functions returning them) and classifies each use:
  order-free     membership, len, add/discard/update/remove/clear, sorted(S), min/max, set algebra
  order-exposing `for x in S`, comprehension over S, list(S), tuple(S), enumerate, join, pop, iter/next
An order-exposing use is an obligation; it is discharged only if the set provably has at most one
element (created empty, every add() in the file has the same literal argument).  Anything else is
reported as a violation of determinism (replayed by generating under several PYTHONHASHSEEDs).
Also reported: every call of hash() / id() outside __hash__/__eq__ definitions.
"""
import ast
import os


def _name(n):
    if isinstance(n, ast.Name):
        return n.id
    if isinstance(n, ast.Attribute):
        b = _name(n.value)
        return (b + '.' + n.attr) if b else None
    return None


def _is_set_ctor(n):
    return (isinstance(n, ast.Call) and isinstance(n.func, ast.Name) and n.func.id in ('set', 'frozenset')) or \
        isinstance(n, (ast.Set, ast.SetComp))


def audit(path):
    src = open(path).read()
    tree = ast.parse(src)
    parents = {}
    for p in ast.walk(tree):
        for c in ast.iter_child_nodes(p):
            parents[c] = p
    setnames = set()
    setfuncs = set()
    changed = True
    while changed:
        changed = False
        for n in ast.walk(tree):
            if isinstance(n, ast.Assign):
                v = n.value
                is_set = _is_set_ctor(v) or (_name(v) in setnames) or \
                    (isinstance(v, ast.Call) and _name(v.func) in setfuncs) or \
                    (isinstance(v, ast.BinOp) and isinstance(v.op, (ast.BitOr, ast.BitAnd, ast.Sub)) and
                     (_name(v.left) in setnames or _name(v.right) in setnames))
                if is_set:
                    for t in n.targets:
                        nm = _name(t)
                        if nm and nm not in setnames:
                            setnames.add(nm)
                            changed = True
            if isinstance(n, ast.FunctionDef):
                for r in ast.walk(n):
                    if isinstance(r, ast.Return) and r.value is not None and \
                            (_is_set_ctor(r.value) or _name(r.value) in setnames):
                        if n.name not in setfuncs:
                            setfuncs.add(n.name)
                            changed = True
    sites = []

    def is_set_expr(e):
        return _is_set_ctor(e) or _name(e) in setnames or (isinstance(e, ast.Call) and _name(e.func) in setfuncs)

    def adds_of(nm):
        out = []
        for n in ast.walk(tree):
            if isinstance(n, ast.Call) and isinstance(n.func, ast.Attribute) and n.func.attr in ('add', 'update') \
                    and _name(n.func.value) == nm:
                out.append(n)
        return out

    def singleton(nm):
        adds = adds_of(nm)
        if not adds:
            return False
        lits = set()
        for a in adds:
            if a.func.attr != 'add' or len(a.args) != 1:
                return False
            try:
                lits.add(ast.literal_eval(a.args[0]))
            except Exception:
                return False
        return len(lits) == 1

    for n in ast.walk(tree):
        exposing = None
        if isinstance(n, (ast.For, ast.comprehension)) and is_set_expr(n.iter):
            exposing = ('iteration', n.iter)
        elif isinstance(n, ast.Call) and isinstance(n.func, ast.Name) and n.func.id in ('list', 'tuple', 'enumerate', 'iter', 'next') \
                and n.args and is_set_expr(n.args[0]):
            exposing = (n.func.id + '()', n.args[0])
        elif isinstance(n, ast.Call) and isinstance(n.func, ast.Attribute) and n.func.attr == 'join' and n.args and \
                is_set_expr(n.args[0]):
            exposing = ('join', n.args[0])
        elif isinstance(n, ast.Call) and isinstance(n.func, ast.Attribute) and n.func.attr == 'pop' and \
                _name(n.func.value) in setnames and not n.args:
            exposing = ('pop', n.func.value)
        if exposing:
            nm = _name(exposing[1])
            ok = bool(nm) and singleton(nm)
            line = getattr(n, 'lineno', None) or getattr(exposing[1], 'lineno', 0)
            sites.append({'file': os.path.basename(path), 'line': line, 'kind': exposing[0], 'set': nm or '<expr>',
                          'discharged': ok, 'reason': 'at most one element (every add() has the same literal)' if ok
                          else 'iteration order of a set can reach the output'})
    hashes = []
    for n in ast.walk(tree):
        if isinstance(n, ast.Call) and isinstance(n.func, ast.Name) and n.func.id in ('hash', 'id'):
            fn = n
            while fn in parents and not isinstance(fn, ast.FunctionDef):
                fn = parents[fn]
            fname = fn.name if isinstance(fn, ast.FunctionDef) else '<module>'
            hashes.append({'file': os.path.basename(path), 'line': n.lineno, 'call': n.func.id, 'in': fname,
                           'discharged': fname in ('__hash__', '__eq__', '__ne__', '__repr__')})
    return {'sets': sorted(setnames), 'set_returning_functions': sorted(setfuncs), 'sites': sites, 'hash_calls': hashes}


if __name__ == '__main__':
    import sys, json
    for p in sys.argv[1:]:
        print(json.dumps(audit(p), indent=1))
