"""pyvc: verification-condition generation for a subset of Python, over ast.parse of the real
source files under /repo/src/cffi (re-read on every run).

Path-enumerating symbolic execution: every branch on a symbolic condition forks the path
(infeasible forks are pruned with a quick solver check); a function yields a list of outcomes
(path condition, 'return' value | 'raise' exception class, final ghost state).  Contracts turn
outcomes into named obligations:
  ensures[label]        postcondition holds on this path
  no-escape[Exc]        a path ending in an exception that the contract does not allow is infeasible
Calls to functions under contract use the contract (fresh result + assumed postcondition, and
one extra outcome per exception the contract allows); recursion uses the function's own contract.

Assumed Python semantics (A-PY): int = mathematical integers (z3 Int; // floors, % takes the sign
of the divisor, << >> through an uninterpreted pow2, & | ^ through uninterpreted functions that
are the same on both sides of every obligation); str = z3 sequence of code points; list/tuple =
Python-level sequences of known length (or 'symbolic sequences' only inside comprehensions, see
Comprehension); exceptions are control flow with a class name; true division of ints (a / b) is a
real number within relative error 2^-53 of the exact quotient (over-approximation of IEEE
double rounding); everything else (generators, descriptors, metaclasses, eval, arbitrary
attribute protocols) is outside the subset and raises PyNotSupported -> exit 3, never a verdict.
"""
import ast
import itertools
import os

import z3

from . import cfront
from .smt import Ob

REPO = cfront.REPO
I = z3.IntSort()
S = z3.StringSort()


class PyNotSupported(Exception):
    pass


class SV:
    """symbolic scalar: z3 term + python-level type tag ('int' | 'bool' | 'str' | 'float')"""
    __slots__ = ('t', 'ty')

    def __init__(self, t, ty):
        self.t, self.ty = t, ty

    def __repr__(self):
        return "SV<%s:%s>" % (self.ty, self.t)


class PObj:
    """record-like object: class name + attribute dict (values may be symbolic)"""

    def __init__(self, cls, **attrs):
        self.cls, self.attrs = cls, dict(attrs)

    def __repr__(self):
        return "<%s %s>" % (self.cls, sorted(self.attrs))


class Exc:
    def __init__(self, cls, msg=None):
        self.cls, self.msg = cls, msg

    def __repr__(self):
        return "Exc(%s)" % self.cls


class SymSeq:
    """a list of unknown length whose elements are described by a generic element (a function
    index -> value is not needed: comprehensions over it are verified per element)"""

    def __init__(self, name, elem_ty):
        self.name, self.elem_ty = name, elem_ty


class SymMap:
    """a dict with symbolic contents: membership and lookup are uninterpreted functions"""

    def __init__(self, name, key_sort=S, val_ty='int'):
        self.name, self.val_ty = name, val_ty
        vs = I if val_ty == 'int' else S
        self.has = z3.Function(name + '!has', key_sort, z3.BoolSort())
        self.get = z3.Function(name + '!get', key_sort, vs)


pow2 = z3.Function('pow2', I, I)
bitand = z3.Function('bitand', I, I, I)
bitor = z3.Function('bitor', I, I, I)
bitxor = z3.Function('bitxor', I, I, I)
fmt_d = z3.Function('fmt_d', I, S)          # '%d' % n
fmt_r = z3.Function('fmt_r', S, S)          # repr(s)
fmt_02X = z3.Function('fmt_02X', I, S)      # '%02X' % n
int_of_str = z3.Function('int_of_str', S, I, I)          # int(s, base) when valid
valid_int = z3.Function('valid_int', S, I, z3.BoolSort())


def py_floordiv(a, b):
    # z3's div/mod are Euclidean: floor for b > 0; for b < 0 use floor(a/b) = floor((-a)/(-b))
    return z3.If(b > 0, a / b, (-a) / (-b))


def py_mod(a, b):
    return a - b * py_floordiv(a, b)


def term(v):
    if isinstance(v, SV):
        return v.t
    if isinstance(v, bool):
        return z3.BoolVal(v)
    if isinstance(v, int):
        return z3.IntVal(v)
    if isinstance(v, str):
        return z3.StringVal(v)
    raise PyNotSupported("no term for %r" % (v,))


def ty_of(v):
    if isinstance(v, SV):
        return v.ty
    if isinstance(v, bool):
        return 'bool'
    if isinstance(v, int):
        return 'int'
    if isinstance(v, str):
        return 'str'
    if v is None:
        return 'none'
    if isinstance(v, (list, tuple)):
        return 'seq'
    if isinstance(v, PObj):
        return 'obj'
    return type(v).__name__


def is_sym(v):
    return isinstance(v, SV)


def as_int_term(v):
    if isinstance(v, SV) and v.ty == 'bool':
        return z3.If(v.t, z3.IntVal(1), z3.IntVal(0))
    if isinstance(v, bool):
        return z3.IntVal(int(v))
    return term(v)


class State:
    def __init__(self):
        self.env = {}
        self.pc = []
        self.trace = []          # ghost event trace (I/O calls, method calls on opaque objects)
        self.ghost = {}

    def fork(self):
        s = State()
        memo = {}
        s.env = {k: clone(v, memo) for k, v in self.env.items()}
        s.pc = list(self.pc)
        s.trace = [clone(e, memo) for e in self.trace]
        s.ghost = {k: clone(v, memo) for k, v in self.ghost.items()}
        return s


def clone(v, memo):
    if isinstance(v, list):
        if id(v) in memo:
            return memo[id(v)]
        r = []
        memo[id(v)] = r
        r.extend(clone(x, memo) for x in v)
        return r
    if isinstance(v, dict):
        if id(v) in memo:
            return memo[id(v)]
        r = {}
        memo[id(v)] = r
        for k, x in v.items():
            r[k] = clone(x, memo)
        return r
    if isinstance(v, tuple):
        return tuple(clone(x, memo) for x in v)
    if isinstance(v, set):
        if id(v) in memo:
            return memo[id(v)]
        r = set()
        memo[id(v)] = r
        r.update(clone(x, memo) for x in v)
        return r
    if isinstance(v, PObj):
        if id(v) in memo:
            return memo[id(v)]
        r = PObj(v.cls)
        memo[id(v)] = r
        r.attrs = {k: clone(x, memo) for k, x in v.attrs.items()}
        return r
    return v


def inline_method(qual):
    """a method model that executes the REAL body of `qual` (same source file) on the receiver: for helpers that the
    function under contract calls and that are under contract themselves (their contracts decide them; here their
    code simply runs)"""
    def h(ex, st, o, pos, kw, n):
        fn = ex.find(qual)
        params = [a.arg for a in fn.args.args]
        defaults = [ast.literal_eval(d) for d in fn.args.defaults]
        vals = dict(zip(params[len(params) - len(defaults):], defaults))
        vals.update(zip(params, [o] + list(pos)))
        vals.update(kw)
        if set(vals) != set(params):
            raise PyNotSupported("inlined call of %s: arguments" % qual)
        saved = dict(st.env)
        st.env.update(vals)
        for out in ex.exec_block(fn.body, st):
            out.st.env = {k: v for k, v in out.st.env.items() if k in saved}
            for k, v in saved.items():
                out.st.env.setdefault(k, v)
            if out.kind == 'raise':
                yield out.st, out.value
            elif out.kind in ('return', 'next'):
                yield out.st, (out.value if out.kind == 'return' else None)
            else:
                raise PyNotSupported("break/continue out of a function")
    return h


class PyContract:
    """Sidecar contract of one Python function (module-level function, method or nested function)."""
    name = None                  # 'module:Class.method' or 'module:function' or 'module:outer.<locals>.inner'
    allowed = ()                 # exception class names that may escape by contract

    def setup(self, ex):         # -> (args dict name -> value, list of assumptions)
        raise NotImplementedError

    def post(self, ex, args, kind, value, st):   # kind 'return' | 'raise'; -> [(label, Bool)]
        return []

    # at call sites
    def call(self, ex, st, args):                # -> list of (assumptions, kind, value)
        raise PyNotSupported("contract %s cannot be used at call sites" % self.name)


class Outcome:
    def __init__(self, st, kind, value):
        self.st, self.kind, self.value = st, kind, value


class PyExec:
    def __init__(self, module_path, registry):
        self.path = module_path
        with open(module_path) as f:
            self.src = f.read()
        self.tree = ast.parse(self.src)
        self.reg = registry
        self._fresh = itertools.count()
        self.obs = []
        self.pruned = 0
        self.modname = os.path.basename(module_path)[:-3]
        self.builtin_calls = 0
        self.shifted = {}        # term id of  v << k (constant k)  ->  k

    # -- lookup ------------------------------------------------------------
    def find(self, qual):
        """'Class.method' | 'function' | 'outer.inner' -> FunctionDef"""
        node = self.tree
        for part in qual.split('.'):
            found = None
            for c in ast.walk(node) if node is not self.tree else node.body:
                if isinstance(c, (ast.FunctionDef, ast.ClassDef)) and c.name == part and c is not node:
                    found = c
                    break
            if found is None:
                raise PyNotSupported("%s not found in %s (renamed or removed?)" % (qual, self.path))
            node = found
        return node

    def fresh(self, base, ty):
        sort = {'int': I, 'str': S, 'bool': z3.BoolSort(), 'float': z3.RealSort()}[ty]
        return SV(z3.Const("%s!%d" % (base, next(self._fresh)), sort), ty)

    def feasible(self, st):
        s = z3.Solver()
        s.set('timeout', 400)
        for p in st.pc:
            s.add(p)
        r = s.check() != z3.unsat
        if not r:
            self.pruned += 1
        return r

    # -- running a function under its contract -------------------------------
    def run(self, qual, contract):
        fn = self.find(qual)
        st = State()
        args, assumptions = contract.setup(self)
        st.pc.extend(assumptions)
        seg = getattr(contract, 'segment', None)
        body = fn.body
        if seg is not None:
            # "segment contract": a statement list selected mechanically from the real AST of the function (e.g. one
            # branch of an if); every name it reads is given by the contract, the rest of the function is not executed
            body = seg(fn)
            if not body:
                raise PyNotSupported("segment of %s not found in the current source" % qual)
        for a in ([] if seg is not None else list(fn.args.args) + list(fn.args.kwonlyargs)):
            if a.arg not in args:
                raise PyNotSupported("contract of %s gives no value for parameter %s" % (qual, a.arg))
            st.env[a.arg] = args[a.arg]
        self.free_names = {k: v for k, v in args.items() if k not in st.env}
        st.env.update(self.free_names)
        self.cur = qual
        if hasattr(contract, 'init_state'):
            contract.init_state(st)
        outs = self.exec_block(body, st)
        res = []
        for o in outs:
            if o.kind == 'next':
                o = Outcome(o.st, 'return', None)
            res.append(o)
        file_ = os.path.relpath(self.path, REPO)
        for k, o in enumerate(res):
            line = getattr(o, 'line', None) or fn.lineno
            base = "%s:%s:L%s" % (os.path.basename(self.path), qual, line)
            if o.kind == 'raise' and o.value.cls not in contract.allowed:
                self.obs.append(Ob("%s:no-escape[%s]" % (base, o.value.cls), list(o.st.pc), z3.BoolVal(False),
                                   kind='no-escape', fn=qual, line=line,
                                   witness=self.witness(contract, args)))
            for label, goal in contract.post(self, args, o.kind, o.value, o.st):
                self.obs.append(Ob("%s:ensures[%s]#%d" % (base, label, k), list(o.st.pc), goal, kind='ensures',
                                   fn=qual, line=line, witness=self.witness(contract, args)))
        if getattr(contract, 'escape_summary', False):
            self.obs.append(Ob("%s:%s:all-%d-paths-end-in-return-or-a-cffi-error[%s]"
                               % (os.path.basename(self.path), qual, len(res), getattr(contract, 'label', '')),
                               [], z3.BoolVal(True) if True else None, kind='summary', fn=qual, line=fn.lineno))
        self.outcomes = res
        return res

    def witness(self, contract, args):
        w = {}
        for k, v in args.items():
            if isinstance(v, SV):
                w[k] = v.t
        if hasattr(contract, 'witness'):
            w.update(contract.witness(self, args))
        return w

    # -- statements ------------------------------------------------------------
    def exec_block(self, stmts, st):
        """-> list of Outcome (kind 'next' falls through)"""
        live = [st]
        done = []
        for s in stmts:
            nxt = []
            for cur in live:
                for o in self.exec_stmt(s, cur):
                    if o.kind == 'next':
                        nxt.append(o.st)
                    else:
                        if not hasattr(o, 'line'):
                            o.line = s.lineno
                        done.append(o)
            live = nxt
            if not live:
                break
        return done + [Outcome(s_, 'next', None) for s_ in live]

    def exec_stmt(self, n, st):
        if isinstance(n, ast.Return):
            if n.value is None:
                return [Outcome(st, 'return', None)]
            return [Outcome(s, 'raise', v) if isinstance(v, Exc) else Outcome(s, 'return', v)
                    for s, v in self.ev(n.value, st)]
        if isinstance(n, ast.Expr):
            return [Outcome(s, 'raise', v) if isinstance(v, Exc) else Outcome(s, 'next', None)
                    for s, v in self.ev(n.value, st)]
        if isinstance(n, ast.Assign):
            outs = []
            for s, v in self.ev(n.value, st):
                if isinstance(v, Exc):
                    outs.append(Outcome(s, 'raise', v))
                    continue
                for tgt in n.targets:
                    self.assign(tgt, v, s)
                outs.append(Outcome(s, 'next', None))
            return outs
        if isinstance(n, ast.AugAssign):
            binop = ast.BinOp(left=self.as_load(n.target), op=n.op, right=n.value)
            ast.copy_location(binop, n)
            outs = []
            for s, v in self.ev(binop, st):
                if isinstance(v, Exc):
                    outs.append(Outcome(s, 'raise', v))
                else:
                    self.assign(n.target, v, s)
                    outs.append(Outcome(s, 'next', None))
            return outs
        if isinstance(n, ast.If):
            outs = []
            for s, c, in self.branches(n.test, st):
                if isinstance(c, Exc):
                    outs.append(Outcome(s, 'raise', c))
                elif c:
                    outs.extend(self.exec_block(n.body, s))
                else:
                    outs.extend(self.exec_block(n.orelse, s))
            return outs
        if isinstance(n, ast.Raise):
            if n.exc is None:
                exc = st.env.get('$handling')
                if exc is None:
                    raise PyNotSupported("bare raise outside handler")
                return [Outcome(st, 'raise', exc)]
            outs = []
            for s, v in self.ev(n.exc, st):
                if isinstance(v, PObj) and v.attrs.get('$is_exception'):
                    v = Exc(v.cls, v.attrs.get('args'))
                if isinstance(v, type) and issubclass(v, BaseException):
                    v = Exc(v.__name__)
                if isinstance(v, tuple) and v and v[0] == '$excclass':
                    v = Exc(v[1])                      # `raise SomeError` without arguments
                if not isinstance(v, Exc):
                    raise PyNotSupported("raise of %r" % (v,))
                outs.append(Outcome(s, 'raise', v))
            return outs
        if isinstance(n, ast.Pass):
            return [Outcome(st, 'next', None)]
        if isinstance(n, ast.Try):
            return self.exec_try(n, st)
        if isinstance(n, ast.For):
            return self.exec_for(n, st)
        if isinstance(n, ast.While):
            raise PyNotSupported("while loop (line %d)" % n.lineno)
        if isinstance(n, (ast.Break,)):
            return [Outcome(st, 'break', None)]
        if isinstance(n, (ast.Continue,)):
            return [Outcome(st, 'continue', None)]
        if isinstance(n, ast.FunctionDef):
            st.env[n.name] = ('$localfn', n)
            return [Outcome(st, 'next', None)]
        if isinstance(n, ast.With):
            return self.exec_with(n, st)
        if isinstance(n, ast.Assert):
            outs = []
            for s, c in self.branches(n.test, st):
                if isinstance(c, Exc):
                    outs.append(Outcome(s, 'raise', c))
                elif c:
                    outs.append(Outcome(s, 'next', None))
                else:
                    outs.append(Outcome(s, 'raise', Exc('AssertionError')))
            return outs
        if isinstance(n, (ast.Import, ast.ImportFrom, ast.Global)):
            return [Outcome(st, 'next', None)]
        raise PyNotSupported("statement %s (line %d)" % (type(n).__name__, n.lineno))

    def as_load(self, tgt):
        import copy
        t = copy.deepcopy(tgt)
        for x in ast.walk(t):
            if hasattr(x, 'ctx'):
                x.ctx = ast.Load()
        return t

    def assign(self, tgt, v, st):
        if isinstance(tgt, ast.Name):
            st.env[tgt.id] = v
        elif isinstance(tgt, (ast.Tuple, ast.List)):
            if not isinstance(v, (tuple, list)) or len(v) != len(tgt.elts):
                raise PyNotSupported("unpacking of %r" % (v,))
            for t, x in zip(tgt.elts, v):
                self.assign(t, x, st)
        elif isinstance(tgt, ast.Attribute):
            objs = list(self.ev(tgt.value, st))
            if len(objs) != 1 or not isinstance(objs[0][1], PObj):
                raise PyNotSupported("attribute assignment target")
            objs[0][1].attrs[tgt.attr] = v
        elif isinstance(tgt, ast.Subscript):
            objs = list(self.ev(tgt.value, st))
            keys = list(self.ev(tgt.slice, st))
            if len(objs) != 1 or len(keys) != 1:
                raise PyNotSupported("subscript assignment target")
            o, k = objs[0][1], keys[0][1]
            if isinstance(o, dict) and not is_sym(k):
                o[k] = v
            elif isinstance(o, list) and isinstance(k, int):
                o[k] = v
            elif isinstance(o, list) and isinstance(k, slice) and k == slice(None, None, None) and isinstance(v, list):
                o[:] = v
            else:
                h = self.reg.hooks.get('setitem')
                if h is None or not h(self, st, o, k, v):
                    raise PyNotSupported("subscript assignment on %r[%r]" % (o, k))
        else:
            raise PyNotSupported("assignment target " + type(tgt).__name__)

    def exec_try(self, n, st):
        outs = []
        for o in self.exec_block(n.body, st):
            if o.kind == 'raise':
                handled = False
                for h in n.handlers:
                    if self.handler_matches(h, o.value):
                        s = o.st
                        if h.name:
                            # the bound exception *object* (a value); Exc instances mark control flow only
                            s.env[h.name] = PObj(o.value.cls, **{'$is_exception': True, 'args': o.value.msg})
                        saved = s.env.get('$handling')
                        s.env['$handling'] = o.value
                        hb = self.exec_block(h.body, s)
                        for x in hb:
                            x.st.env['$handling'] = saved
                        outs.extend(hb)
                        handled = True
                        break
                if not handled:
                    outs.append(o)
            elif o.kind == 'next' and n.orelse:
                outs.extend(self.exec_block(n.orelse, o.st))
            else:
                outs.append(o)
        if n.finalbody:
            res = []
            for o in outs:
                for f in self.exec_block(n.finalbody, o.st):
                    if f.kind == 'next':
                        res.append(Outcome(f.st, o.kind, o.value))
                    else:
                        res.append(f)
            return res
        return outs

    def handler_matches(self, h, exc):
        if h.type is None:
            return True
        names = []
        t = h.type
        for e in (t.elts if isinstance(t, ast.Tuple) else [t]):
            names.append(e.attr if isinstance(e, ast.Attribute) else getattr(e, 'id', None))
        return any(self.reg.is_subclass(exc.cls, nm) for nm in names)

    def exec_for(self, n, st):
        its = list(self.ev(n.iter, st))
        outs = []
        for s, seq in its:
            if isinstance(seq, Exc):
                outs.append(Outcome(s, 'raise', seq))
                continue
            if isinstance(seq, dict):
                seq = list(seq.keys())
            if not isinstance(seq, (list, tuple)):
                h = self.reg.hooks.get('for')
                if h is not None:
                    r = h(self, n, s, seq)
                    if r is not None:
                        outs.extend(r)
                        continue
                raise PyNotSupported("for over %r (line %d)" % (seq, n.lineno))
            live = [s]
            for item in list(seq):
                nxt = []
                for cur in live:
                    self.assign(n.target, item, cur)
                    for o in self.exec_block(n.body, cur):
                        if o.kind in ('next', 'continue'):
                            nxt.append(o.st)
                        elif o.kind == 'break':
                            outs.append(Outcome(o.st, 'next', None))
                        else:
                            outs.append(o)
                live = nxt
            for cur in live:
                if n.orelse:
                    outs.extend(self.exec_block(n.orelse, cur))
                else:
                    outs.append(Outcome(cur, 'next', None))
        return outs

    def exec_with(self, n, st):
        h = self.reg.hooks.get('with')
        if h is None:
            raise PyNotSupported("with statement (line %d)" % n.lineno)
        return h(self, n, st)

    # -- conditions ------------------------------------------------------------
    def truth(self, v):
        """python truthiness -> True/False (concrete) or z3 Bool"""
        if isinstance(v, SV):
            if v.ty == 'bool':
                return v.t
            if v.ty == 'int':
                return v.t != 0
            if v.ty == 'str':
                return z3.Length(v.t) > 0
            raise PyNotSupported("truth of " + v.ty)
        if isinstance(v, (PObj,)):
            return True
        if isinstance(v, SymSeq):
            if getattr(v, 'nonempty', None) is None:
                raise PyNotSupported("truth of a symbolic sequence of unknown emptiness")
            return bool(v.nonempty)
        return bool(v)

    def branches(self, test, st):
        """yield (state, True/False | Exc) for each feasible outcome of a condition"""
        res = []
        for s, v in self.ev(test, st):
            if isinstance(v, Exc):
                res.append((s, v))
                continue
            t = self.truth(v)
            if isinstance(t, bool):
                res.append((s, t))
                continue
            ts = z3.simplify(t)
            if z3.is_true(ts):
                res.append((s, True))
                continue
            if z3.is_false(ts):
                res.append((s, False))
                continue
            s2 = s.fork()
            s.pc.append(t)
            s2.pc.append(z3.Not(t))
            if self.feasible(s):
                res.append((s, True))
            if self.feasible(s2):
                res.append((s2, False))
        return res

    # -- expressions: generators of (state, value | Exc) -------------------------
    def ev(self, n, st):
        m = getattr(self, 'ev_' + type(n).__name__, None)
        if m is None:
            raise PyNotSupported("expression %s (line %d)" % (type(n).__name__, getattr(n, 'lineno', 0)))
        return m(n, st)

    def ev_Constant(self, n, st):
        yield st, n.value

    def ev_Name(self, n, st):
        if n.id in st.env:
            yield st, st.env[n.id]
        elif n.id in self.reg.globals:
            yield st, self.reg.globals[n.id]
        elif n.id in ('None', 'True', 'False'):
            yield st, {'None': None, 'True': True, 'False': False}[n.id]
        elif n.id in BUILTIN_EXC:
            yield st, ('$excclass', n.id)
        elif n.id in ('len', 'int', 'ord', 'isinstance', 'str', 'tuple', 'list', 'sorted', 'min', 'max', 'repr',
                      'hasattr', 'getattr', 'callable', 'type', 'bool', 'range', 'dict', 'set', 'open', 'hex',
                      'chr', 'abs', 'enumerate', 'zip', 'any', 'all', 'id', 'print'):
            yield st, ('$builtin', n.id)
        else:
            for node in self.tree.body:
                if isinstance(node, ast.FunctionDef) and node.name == n.id:
                    yield st, ('$localfn', node)
                    return
            v = self.module_constant(n.id)
            if v is None:
                raise PyNotSupported("unknown name %s (line %d)" % (n.id, n.lineno))
            yield st, v[0]

    def module_constant(self, name):
        """a module-level  NAME = <literal>  of the real source file"""
        for node in self.tree.body:
            if isinstance(node, ast.Assign) and any(isinstance(t, ast.Name) and t.id == name for t in node.targets):
                try:
                    return (ast.literal_eval(node.value),)
                except Exception:
                    return None
        return None

    def ev_Tuple(self, n, st):
        for s, vals in self.ev_list(n.elts, st):
            yield s, (vals if isinstance(vals, Exc) else tuple(vals))

    def ev_List(self, n, st):
        for s, vals in self.ev_list(n.elts, st):
            yield s, (vals if isinstance(vals, Exc) else list(vals))

    def ev_Dict(self, n, st):
        for s, ks in self.ev_list(n.keys, st):
            if isinstance(ks, Exc):
                yield s, ks
                continue
            for s2, vs in self.ev_list(n.values, s):
                if isinstance(vs, Exc):
                    yield s2, vs
                else:
                    yield s2, dict(zip(ks, vs))

    def ev_list(self, nodes, st):
        """evaluate expressions left to right -> (state, [values]) or (state, Exc)"""
        if not nodes:
            yield st, []
            return
        for s, v in self.ev(nodes[0], st):
            if isinstance(v, Exc):
                yield s, v
                continue
            for s2, rest in self.ev_list(nodes[1:], s):
                if isinstance(rest, Exc):
                    yield s2, rest
                else:
                    yield s2, [v] + rest

    def ev_Attribute(self, n, st):
        for s, o in self.ev(n.value, st):
            if isinstance(o, Exc):
                yield s, o
                continue
            if isinstance(o, PObj):
                if n.attr in o.attrs:
                    yield s, o.attrs[n.attr]
                elif o.attrs.get('$strict') and ("%s.%s" % (o.cls, n.attr)) not in self.reg.method_models \
                        and ("%s.%s" % (o.cls, n.attr)) not in self.reg.method_contracts:
                    # an object whose attribute set is known exactly (a pycparser AST node built from its __slots__):
                    # reading anything else is Python's AttributeError
                    yield s, Exc('AttributeError')
                else:
                    yield s, ('$method', o, n.attr)
            elif o is None:
                yield s, Exc('AttributeError')
            elif isinstance(o, tuple) and o and o[0] == '$module':
                yield s, self.reg.module_attr(o[1], n.attr)
            else:
                yield s, ('$method', o, n.attr)

    def ev_BoolOp(self, n, st):
        def go(vals, s):
            if not vals:
                return
            first, rest = vals[0], vals[1:]
            for s1, v in self.ev(first, s):
                if isinstance(v, Exc) or not rest:
                    yield s1, v
                    continue
                t = self.truth(v)
                if isinstance(t, bool):
                    if (isinstance(n.op, ast.And) and not t) or (isinstance(n.op, ast.Or) and t):
                        yield s1, v
                    else:
                        yield from go(rest, s1)
                    continue
                # symbolic: fork
                s2 = s1.fork()
                s1.pc.append(t)
                s2.pc.append(z3.Not(t))
                stop, cont = (s2, s1) if isinstance(n.op, ast.And) else (s1, s2)
                if self.feasible(stop):
                    yield stop, (False if isinstance(n.op, ast.And) else True) if v.ty == 'bool' else v
                if self.feasible(cont):
                    yield from go(rest, cont)
        return go(n.values, st)

    def ev_UnaryOp(self, n, st):
        for s, v in self.ev(n.operand, st):
            if isinstance(v, Exc):
                yield s, v
            elif isinstance(n.op, ast.Not):
                t = self.truth(v)
                yield s, (not t) if isinstance(t, bool) else SV(z3.Not(t), 'bool')
            elif isinstance(n.op, ast.USub):
                yield s, (-v if not is_sym(v) else SV(-as_int_term(v), 'int'))
            elif isinstance(n.op, ast.UAdd):
                yield s, v
            elif isinstance(n.op, ast.Invert):
                yield s, (~v if not is_sym(v) else SV(-as_int_term(v) - 1, 'int'))
            else:
                raise PyNotSupported("unary op")

    def ev_IfExp(self, n, st):
        for s, c in self.branches(n.test, st):
            if isinstance(c, Exc):
                yield s, c
            else:
                yield from self.ev(n.body if c else n.orelse, s)

    def ev_Compare(self, n, st):
        if len(n.ops) != 1:
            # a < b < c  ->  a < b and b < c (b evaluated once: only allowed for names/constants)
            parts = []
            left = n.left
            for op, right in zip(n.ops, n.comparators):
                parts.append(ast.Compare(left=left, ops=[op], comparators=[right]))
                left = right
            for p in parts:
                ast.copy_location(p, n)
            bo = ast.BoolOp(op=ast.And(), values=parts)
            ast.copy_location(bo, n)
            yield from self.ev(bo, st)
            return
        op = n.ops[0]
        for s, v in self.ev_list([n.left, n.comparators[0]], st):
            if isinstance(v, Exc):
                yield s, v
                continue
            yield s, self.compare(op, v[0], v[1], s, n)

    def compare(self, op, a, b, st, n):
        if isinstance(op, (ast.Is, ast.IsNot)):
            if a is None or b is None or isinstance(a, PObj) or isinstance(b, PObj):
                r = a is b
            elif not is_sym(a) and not is_sym(b):
                r = a is b or a == b
            else:
                raise PyNotSupported("'is' on symbolic values (line %d)" % n.lineno)
            return r if isinstance(op, ast.Is) else not r
        if isinstance(op, (ast.In, ast.NotIn)):
            r = self.contains(b, a, st, n)
            if isinstance(op, ast.NotIn):
                r = (not r) if isinstance(r, bool) else SV(z3.Not(r.t), 'bool')
            return r
        if not is_sym(a) and not is_sym(b):
            try:
                return {ast.Eq: lambda: a == b, ast.NotEq: lambda: a != b, ast.Lt: lambda: a < b,
                        ast.LtE: lambda: a <= b, ast.Gt: lambda: a > b, ast.GtE: lambda: a >= b}[type(op)]()
            except TypeError:
                raise PyNotSupported("comparison of %r and %r" % (a, b))
        ta, tb = ty_of(a), ty_of(b)
        if isinstance(op, (ast.Eq, ast.NotEq)):
            if {ta, tb} <= {'int', 'bool'}:
                e = as_int_term(a) == as_int_term(b)
            elif ta == tb == 'str':
                e = term(a) == term(b)
            elif ta != tb and 'none' in (ta, tb) or (ta != tb and {ta, tb} & {'str'} and {ta, tb} & {'int', 'bool'}):
                e = z3.BoolVal(False)
            else:
                raise PyNotSupported("== between %s and %s (line %d)" % (ta, tb, n.lineno))
            return SV(e if isinstance(op, ast.Eq) else z3.Not(e), 'bool')
        if {ta, tb} <= {'int', 'bool'}:
            x, y = as_int_term(a), as_int_term(b)
            return SV({ast.Lt: x < y, ast.LtE: x <= y, ast.Gt: x > y, ast.GtE: x >= y}[type(op)], 'bool')
        if ta == tb == 'str':
            x, y = term(a), term(b)
            lt, le = z3.StrLT if hasattr(z3, 'StrLT') else None, None
            e = {ast.Lt: x < y, ast.LtE: x <= y, ast.Gt: y < x, ast.GtE: y <= x}[type(op)]
            return SV(e, 'bool')
        raise PyNotSupported("ordering between %s and %s" % (ta, tb))

    def contains(self, container, item, st, n):
        if isinstance(container, SymMap):
            return SV(container.has(term(item)), 'bool')
        if isinstance(container, (list, tuple, set, frozenset, dict)) and not is_sym(item) and \
                not any(is_sym(x) for x in container):
            return item in container
        if isinstance(container, (dict, set, frozenset)):
            container = list(container)
        if isinstance(container, (list, tuple)):
            return SV(z3.Or(*[self.compare(ast.Eq(), item, x, st, n).t if is_sym(item) or is_sym(x)
                              else z3.BoolVal(item == x) for x in container]) if container else z3.BoolVal(False), 'bool')
        if ty_of(container) == 'str' and ty_of(item) == 'str':
            if not is_sym(container) and not is_sym(item):
                return item in container
            return SV(z3.Contains(term(container), term(item)), 'bool')
        raise PyNotSupported("'in' on %r (line %d)" % (container, n.lineno))

    def ev_BinOp(self, n, st):
        for s, v in self.ev_list([n.left, n.right], st):
            if isinstance(v, Exc):
                yield s, v
                continue
            yield from self.binop(n.op, v[0], v[1], s, n)

    def binop(self, op, a, b, st, n):
        ta, tb = ty_of(a), ty_of(b)
        if isinstance(op, ast.Mod) and ta == 'str':
            yield st, self.format(a, b, n)
            return
        if not is_sym(a) and not is_sym(b) and not isinstance(a, (PObj, SymSeq)) and not isinstance(b, (PObj, SymSeq)):
            try:
                import operator
                f = {ast.Add: operator.add, ast.Sub: operator.sub, ast.Mult: operator.mul,
                     ast.FloorDiv: operator.floordiv, ast.Mod: operator.mod, ast.LShift: operator.lshift,
                     ast.RShift: operator.rshift, ast.BitAnd: operator.and_, ast.BitOr: operator.or_,
                     ast.BitXor: operator.xor, ast.Div: operator.truediv, ast.Pow: operator.pow}[type(op)]
                yield st, f(a, b)
            except ZeroDivisionError:
                yield st, Exc('ZeroDivisionError')
            except ValueError:
                yield st, Exc('ValueError')
            except TypeError:
                yield st, Exc('TypeError')
            return
        if ta == 'str' and tb == 'str' and isinstance(op, ast.Add):
            yield st, SV(z3.Concat(term(a), term(b)), 'str')
            return
        if ta == 'seq' and tb == 'seq' and isinstance(op, ast.Add):
            yield st, type(a)(list(a) + list(b))
            return
        if not ({ta, tb} <= {'int', 'bool'}):
            if 'float' in (ta, tb) and isinstance(op, (ast.Add, ast.Sub, ast.Mult)):
                raise PyNotSupported("float arithmetic")
            yield st, Exc('TypeError')
            return
        x, y = as_int_term(a), as_int_term(b)
        if isinstance(op, ast.Add):
            yield st, SV(x + y, 'int')
        elif isinstance(op, ast.Sub):
            yield st, SV(x - y, 'int')
        elif isinstance(op, ast.Mult):
            yield st, SV(x * y, 'int')
        elif isinstance(op, (ast.FloorDiv, ast.Mod, ast.Div)):
            # may raise ZeroDivisionError
            s0 = st.fork()
            s0.pc.append(y == 0)
            if self.feasible(s0):
                yield s0, Exc('ZeroDivisionError')
            st.pc.append(y != 0)
            if self.feasible(st):
                if isinstance(op, ast.FloorDiv):
                    yield st, SV(py_floordiv(x, y), 'int')
                elif isinstance(op, ast.Mod):
                    yield st, SV(py_mod(x, y), 'int')
                else:
                    q = self.fresh('truediv', 'float')
                    exact = z3.ToReal(x) / z3.ToReal(y)
                    eps = z3.RealVal(2) ** -53 if False else z3.Q(1, 1 << 53)
                    st.pc.append(z3.And(q.t >= exact - eps * z3.If(exact >= 0, exact, -exact),
                                        q.t <= exact + eps * z3.If(exact >= 0, exact, -exact)))
                    yield st, q
        elif isinstance(op, (ast.LShift, ast.RShift)) and isinstance(b, int) and not isinstance(b, bool) and b >= 0:
            # constant shift count: exact arithmetic (x * 2^k, floor(x / 2^k))
            if isinstance(op, ast.LShift):
                r = SV(x * (1 << b), 'int')
                self.shifted[r.t.get_id()] = b
                yield st, r
            else:
                yield st, SV(py_floordiv(x, z3.IntVal(1 << b)), 'int')
        elif isinstance(op, (ast.LShift, ast.RShift)):
            s0 = st.fork()
            s0.pc.append(y < 0)
            if self.feasible(s0):
                yield s0, Exc('ValueError')
            st.pc.append(y >= 0)
            if self.feasible(st):
                if isinstance(op, ast.LShift):
                    yield st, SV(x * pow2(y), 'int')
                else:
                    yield st, SV(py_floordiv(x, pow2(y)), 'int')
        elif isinstance(op, ast.BitAnd) and isinstance(b, int) and b >= 0 and (b & (b + 1)) == 0:
            yield st, SV(py_mod(x, z3.IntVal(b + 1)), 'int')       # x & (2^k - 1) = x mod 2^k for every int x
        elif isinstance(op, ast.BitAnd) and isinstance(a, int) and a >= 0 and (a & (a + 1)) == 0:
            yield st, SV(py_mod(y, z3.IntVal(a + 1)), 'int')
        elif isinstance(op, ast.BitAnd):
            yield st, SV(bitand(x, y), 'int')
        elif isinstance(op, ast.BitOr):
            k = self.shifted.get(x.get_id()) if is_sym(a) else None
            if k is not None:
                # (v << k) | w  =  (v << k) + w   when 0 <= w < 2^k
                yield st, SV(z3.If(z3.And(y >= 0, y < (1 << k)), x + y, bitor(x, y)), 'int')
            else:
                yield st, SV(bitor(x, y), 'int')
        elif isinstance(op, ast.BitXor):
            if ta == 'bool' and tb == 'bool':
                yield st, SV(z3.Xor(term(a), term(b)), 'bool')
            else:
                yield st, SV(bitxor(x, y), 'int')
        else:
            raise PyNotSupported("binary op %s" % type(op).__name__)

    def format(self, fmt, args, n):
        if is_sym(fmt):
            raise PyNotSupported("symbolic format string")
        if not isinstance(args, tuple):
            args = (args,)
        import re
        parts = re.split(r'(%(?:0?\d*)[dsrXx%])', fmt)
        out = []
        k = 0
        for p in parts:
            if p.startswith('%') and len(p) > 1:
                if p == '%%':
                    out.append('%')
                    continue
                a = args[k]
                k += 1
                conv = p[-1]
                if conv == 'd':
                    out.append(fmt_d(as_int_term(a)) if is_sym(a) else str(int(a)))
                elif conv == 's':
                    if ty_of(a) == 'str':
                        out.append(term(a) if is_sym(a) else a)
                    elif ty_of(a) in ('int', 'bool') and is_sym(a):
                        out.append(fmt_d(as_int_term(a)))
                    else:
                        out.append(str(a) if not isinstance(a, (PObj, Exc)) else '<obj>')
                elif conv == 'r':
                    if ty_of(a) == 'str':
                        out.append(fmt_r(term(a)) if is_sym(a) else repr(a))
                    else:
                        out.append(repr(a) if not is_sym(a) else fmt_d(as_int_term(a)))
                elif conv in 'Xx':
                    if p == '%02X':
                        out.append(fmt_02X(as_int_term(a)) if is_sym(a) else '%02X' % a)
                    else:
                        raise PyNotSupported("format " + p)
            elif p:
                out.append(p)
        if all(isinstance(x, str) for x in out):
            return ''.join(out)
        return SV(z3.Concat(*[z3.StringVal(x) if isinstance(x, str) else x for x in out])
                  if len(out) > 1 else (z3.StringVal(out[0]) if isinstance(out[0], str) else out[0]), 'str')

    def ev_Subscript(self, n, st):
        for s, o in self.ev(n.value, st):
            if isinstance(o, Exc):
                yield s, o
                continue
            if isinstance(n.slice, ast.Slice):
                lo = hi = None
                ok = True
                vals = []
                for part in (n.slice.lower, n.slice.upper):
                    if part is None:
                        vals.append(None)
                    else:
                        r = list(self.ev(part, s))
                        if len(r) != 1 or isinstance(r[0][1], Exc):
                            raise PyNotSupported("slice bound")
                        vals.append(r[0][1])
                if n.slice.step is not None:
                    r = list(self.ev(n.slice.step, s))
                    if len(r) != 1 or is_sym(r[0][1]) or isinstance(r[0][1], Exc):
                        raise PyNotSupported("slice step")
                    if not is_sym(o) and not isinstance(o, PObj) and not is_sym(vals[0]) and not is_sym(vals[1]):
                        yield s, o[vals[0]:vals[1]:r[0][1]]
                    else:       # an opaque value determined by (sequence, bounds, step)
                        yield s, PObj('SteppedSlice', base=o, lo=vals[0], hi=vals[1], step=r[0][1])
                    continue
                self.pending_facts = []
                sl = self.slice(o, vals[0], vals[1], n)
                s.pc.extend(self.pending_facts)
                yield s, sl
                continue
            for s2, k in self.ev(n.slice, s):
                if isinstance(k, Exc):
                    yield s2, k
                    continue
                yield from self.index(o, k, s2, n)

    def slice(self, o, lo, hi, n):
        if not is_sym(o) and not is_sym(lo) and not is_sym(hi):
            return o[lo:hi]
        if ty_of(o) == 'str' and not is_sym(lo) and not is_sym(hi):
            t = term(o)
            ln = z3.Length(t)
            if (lo is None or lo >= 0) and hi is None:
                lo = lo or 0
                return SV(z3.SubString(t, lo, ln - lo), 'str')
            if (lo is None or lo >= 0) and hi >= 0:
                lo = lo or 0
                return SV(z3.SubString(t, lo, hi - lo), 'str')
        if ty_of(o) == 'str':
            # symbolic bounds: slicing never raises; the result is some substring (over-approximation)
            r = self.fresh('sliced', 'str')
            self.pending_facts.append(z3.And(z3.Contains(term(o), r.t), z3.Length(r.t) <= z3.Length(term(o))))
            return r
        raise PyNotSupported("slice %r[%r:%r] (line %d)" % (o, lo, hi, n.lineno))

    def index(self, o, k, st, n):
        if isinstance(o, (list, tuple)) and isinstance(k, int):
            try:
                yield st, o[k]
            except IndexError:
                yield st, Exc('IndexError')
            return
        if isinstance(o, dict) and not is_sym(k):
            if k in o:
                yield st, o[k]
            else:
                yield st, Exc('KeyError')
            return
        if isinstance(o, dict) and is_sym(k) and any(kk is k for kk in o):
            yield st, o[k]                 # the very key object (e.g. obtained from .keys())
            return
        if isinstance(o, dict) and is_sym(k):
            keys = [kk for kk in o if ty_of(kk) == ty_of(k)]
            hit = z3.Or(*[term(k) == term(kk) for kk in keys]) if keys else z3.BoolVal(False)
            s0 = st.fork()
            s0.pc.append(z3.Not(hit))
            if self.feasible(s0):
                yield s0, Exc('KeyError')
            st.pc.append(hit)
            if self.feasible(st) and keys:
                vals = [o[kk] for kk in keys]
                if not all(ty_of(v) in ('int', 'bool') for v in vals):
                    raise PyNotSupported("dict lookup with symbolic key and non-int values")
                acc = as_int_term(vals[-1])
                for kk, v in list(zip(keys, vals))[-2::-1]:
                    acc = z3.If(term(k) == term(kk), as_int_term(v), acc)
                yield st, SV(acc, 'int')
            return
        if isinstance(o, SymMap):
            s0 = st.fork()
            s0.pc.append(z3.Not(o.has(term(k))))
            if self.feasible(s0):
                yield s0, Exc('KeyError')
            st.pc.append(o.has(term(k)))
            if self.feasible(st):
                yield st, SV(o.get(term(k)), o.val_ty)
            return
        if ty_of(o) == 'str':
            if not is_sym(o) and not is_sym(k):
                try:
                    yield st, o[k]
                except IndexError:
                    yield st, Exc('IndexError')
                return
            t = term(o)
            ln = z3.Length(t)
            if isinstance(k, int) and k < 0:
                pos = ln + k
                okc = ln >= -k
            else:
                pos = as_int_term(k)
                okc = z3.And(pos >= 0, pos < ln) if is_sym(k) else ln > k
            s0 = st.fork()
            s0.pc.append(z3.Not(okc))
            if self.feasible(s0):
                yield s0, Exc('IndexError')
            st.pc.append(okc)
            if self.feasible(st):
                yield st, SV(z3.SubString(t, pos, 1), 'str')
            return
        raise PyNotSupported("subscript %r[%r] (line %d)" % (o, k, n.lineno))

    def ev_Slice(self, n, st):
        if n.lower is None and n.upper is None and n.step is None:
            yield st, slice(None, None, None)
        else:
            raise PyNotSupported("slice object with bounds outside a subscript load")

    def ev_JoinedStr(self, n, st):
        raise PyNotSupported("f-string")

    def ev_Lambda(self, n, st):
        yield st, ('$lambda', n, dict(st.env))

    def ev_ListComp(self, n, st):
        h = self.reg.hooks.get('listcomp')
        if len(n.generators) == 1 and not n.generators[0].is_async:
            g = n.generators[0]
            for s, seq in self.ev(g.iter, st):
                if isinstance(seq, Exc):
                    yield s, seq
                    continue
                if isinstance(seq, SymSeq):
                    if h is None:
                        raise PyNotSupported("comprehension over a symbolic sequence")
                    yield s, h(self, n, s, seq)
                    continue
                if isinstance(seq, dict):
                    seq = list(seq.keys())
                if not isinstance(seq, (list, tuple)):
                    raise PyNotSupported("comprehension over %r" % (seq,))
                # concrete length: unroll
                results = [(s, [])]
                for item in seq:
                    nxt = []
                    for cur, acc in results:
                        self.assign(g.target, item, cur)
                        conds = [(cur, True)]
                        for cnd in g.ifs:
                            c2 = []
                            for cs, ok in conds:
                                if ok is not True:
                                    c2.append((cs, ok))
                                    continue
                                c2.extend(self.branches(cnd, cs))
                            conds = c2
                        for cs, ok in conds:
                            if isinstance(ok, Exc):
                                nxt.append((cs, ok))
                            elif ok:
                                for es, ev_ in self.ev(n.elt, cs):
                                    nxt.append((es, ev_ if isinstance(ev_, Exc) else acc + [ev_]))
                            else:
                                nxt.append((cs, acc))
                    results = nxt
                for cur, acc in results:
                    yield cur, acc
            return
        raise PyNotSupported("comprehension shape (line %d)" % n.lineno)

    # -- calls ---------------------------------------------------------------------
    def ev_Call(self, n, st):
        if n.keywords and any(k.arg is None for k in n.keywords):
            raise PyNotSupported("**kwargs call")
        for s, f in self.ev(n.func, st):
            if isinstance(f, Exc):
                yield s, f
                continue
            starred = [isinstance(a, ast.Starred) for a in n.args]
            nodes = [a.value if isinstance(a, ast.Starred) else a for a in n.args]
            for s2, args in self.ev_list(nodes + [k.value for k in n.keywords], s):
                if isinstance(args, Exc):
                    yield s2, args
                    continue
                pos = []
                for v, star in zip(args[:len(n.args)], starred):
                    if star:
                        # f(*seq): only for sequences whose length is known at this level
                        if not isinstance(v, (list, tuple)):
                            raise PyNotSupported("*args with a sequence of unknown length (line %d)" % n.lineno)
                        pos.extend(v)
                    else:
                        pos.append(v)
                kw = dict(zip([k.arg for k in n.keywords], args[len(n.args):]))
                yield from self.call(f, pos, kw, s2, n)

    def call(self, f, pos, kw, st, n):
        self.builtin_calls += 1
        if isinstance(f, tuple) and f and f[0] == '$builtin':
            yield from self.call_builtin(f[1], pos, kw, st, n)
            return
        if isinstance(f, tuple) and f and f[0] == '$excclass':
            yield st, Exc(f[1], pos)
            return
        if isinstance(f, tuple) and f and f[0] == '$method':
            yield from self.call_method(f[1], f[2], pos, kw, st, n)
            return
        if isinstance(f, tuple) and f and f[0] == '$localfn':
            yield from self.call_local(f[1], pos, kw, st, n)
            return
        if isinstance(f, tuple) and f and f[0] == '$contract':
            yield from self.call_contract(f[1], pos, kw, st, n)
            return
        if isinstance(f, tuple) and f and f[0] == '$class':
            h = self.reg.constructors.get(f[1])
            if h is None:
                raise PyNotSupported("constructor %s" % f[1])
            yield from h(self, st, pos, kw, n)
            return
        if isinstance(f, PObj) and '$call' in f.attrs:
            yield from f.attrs['$call'](self, st, f, pos, kw, n)
            return
        raise PyNotSupported("call of %r (line %d)" % (f, n.lineno))

    def call_contract(self, con, pos, kw, st, n):
        for (assume, kind, value) in con.call(self, st, pos, kw):
            s = st.fork()
            s.pc.extend(assume)
            if self.feasible(s):
                yield s, (value if kind == 'return' else value)

    def call_local(self, fn, pos, kw, st, n):
        con = self.reg.contracts.get("%s:%s.<locals>.%s" % (self.modname, self.cur.split('.')[0], fn.name))
        if con is not None and getattr(con, 'use_at_calls', False):
            yield from self.call_contract(con, pos, kw, st, n)
            return
        # inline
        saved = dict(st.env)
        params = [a.arg for a in fn.args.args]
        if len(pos) > len(params) or any(k not in params + [a.arg for a in fn.args.kwonlyargs] for k in kw):
            yield st, Exc('TypeError')
            return
        for p, v in zip(params, pos):
            st.env[p] = v
        for k, v in kw.items():
            st.env[k] = v
        for o in self.exec_block(fn.body, st):
            env = o.st.env
            o.st.env = dict(saved)
            for k in saved:
                pass
            if o.kind == 'raise':
                yield o.st, o.value
            elif o.kind in ('return', 'next'):
                yield o.st, (o.value if o.kind == 'return' else None)
            else:
                raise PyNotSupported("break/continue out of a function")

    def call_method(self, o, name, pos, kw, st, n):
        if isinstance(o, PObj):
            key = "%s.%s" % (o.cls, name)
            con = self.reg.method_contracts.get(key)
            if con is not None:
                yield from self.call_contract(con, [o] + pos, kw, st, n)
                return
            h = self.reg.method_models.get(key)
            if h is not None:
                yield from h(self, st, o, pos, kw, n)
                return
            raise PyNotSupported("method %s (line %d)" % (key, n.lineno))
        t = ty_of(o)
        if t == 'str':
            yield from self.str_method(o, name, pos, st, n)
            return
        if isinstance(o, list) and name == 'append':
            o.append(pos[0])
            yield st, None
            return
        if isinstance(o, set) and name == 'add' and not is_sym(pos[0]):
            o.add(pos[0])
            yield st, None
            return
        if isinstance(o, list) and name == 'insert' and isinstance(pos[0], int):
            o.insert(pos[0], pos[1])
            yield st, None
            return
        if isinstance(o, list) and name == 'extend' and isinstance(pos[0], (list, tuple)):
            o.extend(pos[0])
            yield st, None
            return
        if isinstance(o, dict) and name in ('items', 'keys', 'values', 'get', 'setdefault'):
            if name == 'items':
                yield st, list(o.items())
            elif name == 'keys':
                yield st, list(o.keys())
            elif name == 'values':
                yield st, list(o.values())
            elif name == 'get' and not is_sym(pos[0]):
                yield st, o.get(pos[0], pos[1] if len(pos) > 1 else None)
            elif name == 'setdefault' and not is_sym(pos[0]):
                yield st, o.setdefault(pos[0], pos[1] if len(pos) > 1 else None)
            else:
                raise PyNotSupported("dict.%s with symbolic key" % name)
            return
        h = self.reg.method_models.get("%s.%s" % (t, name))
        if h is not None:
            yield from h(self, st, o, pos, kw, n)
            return
        raise PyNotSupported("method %s on %s (line %d)" % (name, t, n.lineno))

    def str_method(self, o, name, pos, st, n):
        deep_sym = any(isinstance(p, (list, tuple)) and any(is_sym(x) or isinstance(x, PObj) for x in p) for p in pos)
        if not is_sym(o) and not any(is_sym(p) for p in pos) and not deep_sym:
            try:
                yield st, getattr(o, name)(*pos)
            except ValueError:
                yield st, Exc('ValueError')
            return
        t = term(o)
        if name == 'startswith':
            yield st, SV(z3.PrefixOf(term(pos[0]), t), 'bool')
        elif name == 'endswith':
            yield st, SV(z3.SuffixOf(term(pos[0]), t), 'bool')
        elif name in ('lower', 'upper', 'strip', 'rstrip', 'lstrip', 'split', 'replace', 'partition', 'find',
                      'encode', 'decode', 'join', 'isdigit'):
            h = self.reg.method_models.get('str.' + name)
            if h is None:
                raise PyNotSupported("str.%s on a symbolic string (line %d)" % (name, n.lineno))
            yield from h(self, st, o, pos, {}, n)
        else:
            raise PyNotSupported("str.%s (line %d)" % (name, n.lineno))

    def call_builtin(self, name, pos, kw, st, n):
        if name == 'zip' and all(isinstance(v, (list, tuple)) for v in pos):
            yield st, list(zip(*pos))         # sequences of known length
            return
        if name == 'len':
            v = pos[0]
            if isinstance(v, (list, tuple, dict, str)):
                yield st, len(v)
            elif ty_of(v) == 'str':
                yield st, SV(z3.Length(v.t), 'int')
            else:
                raise PyNotSupported("len of %r" % (v,))
        elif name == 'isinstance':
            yield st, self.reg.isinstance(pos[0], pos[1])
        elif name == 'int':
            v = pos[0]
            if len(pos) == 1 and ty_of(v) in ('int', 'bool'):
                yield st, (int(v) if not is_sym(v) else SV(as_int_term(v), 'int'))
            elif len(pos) == 1 and ty_of(v) == 'float':
                # truncation towards zero of a real
                r = self.fresh('trunc', 'int')
                st.pc.append(z3.If(v.t >= 0, z3.And(z3.ToReal(r.t) <= v.t, v.t < z3.ToReal(r.t) + 1),
                                   z3.And(z3.ToReal(r.t) >= v.t, v.t > z3.ToReal(r.t) - 1)))
                yield st, r
            elif ty_of(v) == 'str':
                base = pos[1] if len(pos) > 1 else 10
                if not is_sym(v) and not is_sym(base):
                    try:
                        yield st, int(v, base)
                    except ValueError:
                        yield st, Exc('ValueError')
                    return
                ok = valid_int(term(v), term(base))
                s0 = st.fork()
                s0.pc.append(z3.Not(ok))
                if self.feasible(s0):
                    yield s0, Exc('ValueError')
                st.pc.append(ok)
                if self.feasible(st):
                    yield st, SV(int_of_str(term(v), term(base)), 'int')
            else:
                raise PyNotSupported("int(%r)" % (v,))
        elif name == 'ord':
            v = pos[0]
            if not is_sym(v):
                try:
                    yield st, ord(v)
                except TypeError:
                    yield st, Exc('TypeError')
                return
            s0 = st.fork()
            s0.pc.append(z3.Length(v.t) != 1)
            if self.feasible(s0):
                yield s0, Exc('TypeError')
            st.pc.append(z3.Length(v.t) == 1)
            if self.feasible(st):
                yield st, SV(z3.StrToCode(v.t), 'int')
        elif name in ('tuple', 'list'):
            v = pos[0] if pos else []
            if isinstance(v, (list, tuple)):
                yield st, (tuple(v) if name == 'tuple' else list(v))
            elif isinstance(v, dict):
                yield st, (tuple(v) if name == 'tuple' else list(v))
            else:
                raise PyNotSupported("%s(%r)" % (name, v))
        elif name == 'str':
            v = pos[0]
            if ty_of(v) == 'str':
                yield st, v
            elif ty_of(v) in ('int', 'bool') and is_sym(v):
                yield st, SV(fmt_d(as_int_term(v)), 'str')
            elif isinstance(v, PObj) and v.attrs.get('$is_exception'):
                yield st, self.fresh('str_of_exception', 'str')
            elif not is_sym(v) and not isinstance(v, PObj):
                yield st, str(v)
            else:
                raise PyNotSupported("str(%r)" % (v,))
        elif name in ('min', 'max') and len(pos) == 1 and isinstance(pos[0], (list, tuple)) and pos[0]:
            vals = pos[0]
            acc = vals[0]
            for x in vals[1:]:
                if not is_sym(acc) and not is_sym(x):
                    acc = min(acc, x) if name == 'min' else max(acc, x)
                else:
                    a, b = as_int_term(acc), as_int_term(x)
                    acc = SV(z3.If(a <= b, a, b) if name == 'min' else z3.If(a >= b, a, b), 'int')
            yield st, acc
        elif name in ('min', 'max') and len(pos) == 1:
            h = self.reg.hooks.get('minmax')
            if h is None:
                raise PyNotSupported("%s of %r" % (name, pos[0]))
            yield from h(self, st, name, pos[0], n)
        elif name == 'sorted' and isinstance(pos[0], (list, tuple, dict)) and not any(is_sym(x) for x in pos[0]):
            yield st, sorted(pos[0])
        elif name == 'callable':
            yield st, self.reg.callable(pos[0])
        elif name == 'hasattr' and isinstance(pos[0], PObj) and not is_sym(pos[1]):
            yield st, pos[1] in pos[0].attrs
        elif name == 'hasattr' and pos[0] is None:
            yield st, False
        elif name == 'repr' and ty_of(pos[0]) == 'str':
            yield st, (repr(pos[0]) if not is_sym(pos[0]) else SV(fmt_r(term(pos[0])), 'str'))
        elif name == 'range' and all(isinstance(p, int) for p in pos):
            yield st, list(range(*pos))
        elif name == 'bool':
            t = self.truth(pos[0])
            yield st, (t if isinstance(t, bool) else SV(t, 'bool'))
        elif name in ('any', 'all') and isinstance(pos[0], (list, tuple)) and not any(is_sym(x) or isinstance(x, (PObj, list, dict)) for x in pos[0]):
            yield st, (any(pos[0]) if name == 'any' else all(pos[0]))
        else:
            h = self.reg.builtin_models.get(name)
            if h is None:
                raise PyNotSupported("builtin %s(%r) (line %d)" % (name, pos, n.lineno))
            yield from h(self, st, pos, kw, n)


BUILTIN_EXC = {'NameError', 'FileNotFoundError', 'ValueError', 'TypeError', 'KeyError', 'IndexError', 'ZeroDivisionError', 'AssertionError',
               'NotImplementedError', 'OverflowError', 'OSError', 'IOError', 'AttributeError', 'RuntimeError',
               'Exception', 'UnicodeDecodeError', 'UnicodeError', 'LookupError', 'ArithmeticError', 'EnvironmentError'}

EXC_PARENTS = {
    'ZeroDivisionError': 'ArithmeticError', 'OverflowError': 'ArithmeticError', 'ArithmeticError': 'Exception',
    'KeyError': 'LookupError', 'IndexError': 'LookupError', 'LookupError': 'Exception',
    'UnicodeDecodeError': 'UnicodeError', 'UnicodeError': 'ValueError', 'ValueError': 'Exception',
    'TypeError': 'Exception', 'AssertionError': 'Exception', 'NotImplementedError': 'RuntimeError',
    'RuntimeError': 'Exception', 'OSError': 'Exception', 'IOError': 'OSError', 'EnvironmentError': 'OSError',
    'AttributeError': 'Exception', 'NameError': 'Exception', 'FileNotFoundError': 'OSError',
    # cffi's own (src/cffi/error.py)
    'FFIError': 'Exception', 'CDefError': 'Exception', 'VerificationError': 'Exception',
    'VerificationMissing': 'Exception', 'PkgConfigError': 'Exception',
}


class PyRegistry:
    def __init__(self):
        self.contracts = {}
        self.method_contracts = {}
        self.method_models = {}
        self.builtin_models = {}
        self.constructors = {}
        self.hooks = {}
        self.globals = {}
        self.classes = {}        # class name -> parent class name (closed datatypes for isinstance)

    def is_subclass(self, cls, parent):
        seen = set()
        while cls is not None and cls not in seen:
            if cls == parent:
                return True
            seen.add(cls)
            cls = self.classes.get(cls, EXC_PARENTS.get(cls))
        return False

    def isinstance(self, v, cls):
        names = []
        single = isinstance(cls, tuple) and cls and isinstance(cls[0], str) and cls[0].startswith('$')
        for c in ((cls,) if single or not isinstance(cls, tuple) else cls):
            if isinstance(c, tuple) and c and c[0] in ('$class', '$excclass'):
                names.append(c[1])
            elif isinstance(c, tuple) and c and c[0] == '$builtin':
                names.append(c[1])
            else:
                raise PyNotSupported("isinstance against %r" % (c,))
        for nm in names:
            if isinstance(v, PObj) and self.is_subclass(v.cls, nm):
                return True
            if nm == 'int' and ty_of(v) in ('int', 'bool'):
                return True
            if nm == 'str' and ty_of(v) == 'str':
                return True
            if nm in ('list',) and isinstance(v, list):
                return True
            if nm in ('tuple',) and isinstance(v, tuple):
                return True
            if nm == 'dict' and isinstance(v, dict):
                return True
            if nm == 'bool' and ty_of(v) == 'bool':
                return True
        return False

    def callable(self, v):
        if isinstance(v, PObj):
            return bool(v.attrs.get('$callable'))
        return isinstance(v, tuple) and v and v[0] in ('$lambda', '$localfn', '$builtin', '$contract', '$class')

    def module_attr(self, mod, attr):
        key = "%s.%s" % (mod, attr)
        if key in self.globals:
            return self.globals[key]
        raise PyNotSupported("module attribute %s" % key)
