"""Replay of counter-models on the real code: build _cffi_backend from /repo's
current working tree into a scratch directory (outside /repo and /verif, removed
at exit) and run a generated script against it with /venv/bin/python.

A replay script exits 0 if the property held on its input, 1 if it was violated
(and prints observed vs expected), anything else = replay error.
"""
import atexit
import os
import shutil
import subprocess
import tempfile

REPO = os.environ.get("VERIF_REPO", "/repo")
PY = "/venv/bin/python"
VERIF = os.path.dirname(os.path.dirname(os.path.abspath(__file__)))
OUT = os.environ.get('VERIF_OUT', VERIF)      # canaries redirect evidence/replays to a scratch directory
_build = {}


def build_dir():
    """scratch copy of the working tree with the extension compiled from it"""
    if 'dir' in _build:
        return _build['dir']
    d = tempfile.mkdtemp(prefix='cffi-replay-')
    atexit.register(shutil.rmtree, d, True)
    for item in ('src', 'setup.py', 'setup_base.py', 'pyproject.toml', 'README.md', 'LICENSE', 'MANIFEST.in'):
        s = os.path.join(REPO, item)
        if os.path.isdir(s):
            shutil.copytree(s, os.path.join(d, item),
                            ignore=shutil.ignore_patterns('*.so', '__pycache__', '*.o', 'build'))
        elif os.path.exists(s):
            shutil.copy(s, d)
    p = subprocess.run([PY, 'setup.py', '-q', 'build_ext', '-i'], cwd=d, capture_output=True, text=True)
    if p.returncode != 0:
        _build['error'] = p.stderr[-3000:]
        raise RuntimeError("cannot build the backend from the working tree:\n" + p.stderr[-3000:])
    _build['dir'] = d
    return d


def run_script(path, timeout=120):
    d = build_dir()
    env = dict(os.environ)
    env['PYTHONPATH'] = os.path.join(d, 'src')
    env.pop('PYTHONHOME', None)
    tmp = tempfile.mkdtemp(prefix='cffi-replay-run-')
    env['TMPDIR'] = tmp
    try:
        p = subprocess.run([PY, path], capture_output=True, text=True, timeout=timeout, env=env, cwd=tmp)
        return p.returncode, (p.stdout + p.stderr)[-4000:]
    except subprocess.TimeoutExpired:
        return 124, 'timeout'
    finally:
        shutil.rmtree(tmp, True)


def write_replay(pid, k, header, body):
    os.makedirs(os.path.join(OUT, 'replays'), exist_ok=True)
    path = os.path.join(OUT, 'replays', '%s-%d.py' % (pid, k))
    with open(path, 'w') as f:
        f.write('"""' + header.replace('"""', "'''") + '\n"""\n' + body)
    return path
