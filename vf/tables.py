"""Extraction of cffi's primitive-type tables from the real sources (C06): every table is read from the clang AST
of the real translation unit or from the `ast` of the real Python modules on every run."""
import ast
import os
import re

from . import cfront


def _find(node, pred, out):
    if isinstance(node, dict):
        if pred(node):
            out.append(node)
            return
        for v in node.get('inner', []) or []:
            _find(v, pred, out)


def _strip(n):
    while n.get('kind') in ('ImplicitCastExpr', 'ParenExpr', 'ConstantExpr', 'CStyleCastExpr') and n.get('inner'):
        n = n['inner'][0]
    return n


def _strlit(n):
    n = _strip(n)
    if n.get('kind') == 'StringLiteral':
        return ast.literal_eval(n['value'])
    if n.get('kind') in ('GNUNullExpr', 'IntegerLiteral', 'ImplicitValueInitExpr'):
        return None
    raise cfront.FrontEndError("expected a string literal, found %s" % n.get('kind'))


def primitive_name_table(tu):
    """index -> name: the initialiser of `primitive_name[]` in build_primitive_type (realize_c_type.c)"""
    fn = tu.functions['build_primitive_type']
    found = []
    _find(fn, lambda n: n.get('kind') == 'VarDecl' and n.get('name') == 'primitive_name', found)
    il = found[0]['inner'][0]
    return [_strlit(e) for e in il['inner']]


def backend_types_table(tu):
    """the `types[]` table of new_primitive_type: list of dict(name, size, align, flags), values as the compiler
    (clang, same flags as the build) evaluates the initialisers"""
    fn = tu.functions['new_primitive_type']
    found, recs = [], []
    _find(fn, lambda n: n.get('kind') == 'VarDecl' and n.get('name') == 'types', found)
    _find(fn, lambda n: n.get('kind') == 'RecordDecl' and str(n.get('name', '')).startswith('aligncheck_'), recs)
    il = found[0]['inner'][0]
    out = []
    for k, e in enumerate(il['inner']):
        if e.get('kind') != 'InitListExpr':
            continue
        items = e['inner']
        name = _strlit(items[0])
        if name is None:
            continue
        size = tu._const_eval(items[1])
        off = _strip(items[2])
        if off.get('kind') != 'OffsetOfExpr':
            raise cfront.FrontEndError("types[%d].align is not an offsetof" % k)
        rec = recs[k]
        flds = [f for f in rec['inner'] if f.get('kind') == 'FieldDecl']
        # offsetof(struct { char x; T y; }, y) is the alignment of T
        align = tu.ctype_of(flds[1]).align
        flags = tu._const_eval(items[3])
        out.append(dict(name=name, size=size, align=align, flags=flags, y_type=flds[1]['type']['qualType']))
    return out


def header_prim_macros():
    """_CFFI_PRIM_* / _CFFI__NUM_PRIM values in parse_c_type.h (macros are not in the AST: read from the text)"""
    txt = open(os.path.join(cfront.REPO, 'src/cffi/parse_c_type.h')).read()
    return {m.group(1): int(m.group(2)) for m in re.finditer(r'#define\s+(_CFFI_(?:PRIM_\w+|_NUM_PRIM|_UNKNOWN\w*))\s+\(?(-?\d+)\)?', txt)}


def py_tables():
    """(PRIMITIVE_TO_INDEX name -> index, PRIM_* constants, ALL_PRIMITIVE_TYPES name -> kind char, COMMON_TYPES aliases)"""
    def module(rel):
        return ast.parse(open(os.path.join(cfront.REPO, rel)).read())
    consts, p2i = {}, {}
    for s in module('src/cffi/cffi_opcode.py').body:
        if isinstance(s, ast.Assign) and len(s.targets) == 1 and isinstance(s.targets[0], ast.Name):
            nm = s.targets[0].id
            if nm.startswith('PRIM_') or nm.startswith('_NUM_PRIM') or nm.startswith('_UNKNOWN'):
                try:
                    consts[nm] = ast.literal_eval(s.value)
                except ValueError:
                    pass
            if nm == 'PRIMITIVE_TO_INDEX':
                for k, v in zip(s.value.keys, s.value.values):
                    p2i[ast.literal_eval(k)] = consts[v.id] if isinstance(v, ast.Name) else ast.literal_eval(v)
    kinds = {}
    for c in ast.walk(module('src/cffi/model.py')):
        if isinstance(c, ast.ClassDef) and c.name == 'PrimitiveType':
            for s in c.body:
                if isinstance(s, ast.Assign) and s.targets[0].id == 'ALL_PRIMITIVE_TYPES':
                    kinds = ast.literal_eval(s.value)
    aliases = {}
    for s in module('src/cffi/commontypes.py').body:
        if isinstance(s, ast.Assign) and isinstance(s.targets[0], ast.Subscript) and \
                getattr(s.targets[0].value, 'id', None) == 'COMMON_TYPES' and isinstance(s.value, ast.Constant):
            aliases[ast.literal_eval(s.targets[0].slice)] = s.value.value
    return p2i, consts, kinds, aliases
