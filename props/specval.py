"""Thorough-tier cross-check of the SPEC functions (specs/ints.py) against the C compiler: for random bit-field
declarations, `bf_write` / `bf_read` -- the mathematical statements the C02 contracts are proved against -- must describe
what gcc itself does when a value is assigned to / read from such a field.  This validates the specification (bounded:
a random sample), it is not part of the proof."""
import os
import random
import shutil
import subprocess
import tempfile

import z3

from specs import ints as S

TYPES = [('signed char', 1, True), ('unsigned char', 1, False), ('short', 2, True), ('unsigned short', 2, False),
         ('int', 4, True), ('unsigned int', 4, False), ('long long', 8, True), ('unsigned long long', 8, False)]


def _val(t):
    v = z3.simplify(t)
    return v.as_long() if z3.is_bv_value(v) else None


def bitfield_vs_gcc(rep, seed, n):
    rnd = random.Random(seed or 1)
    cases = []
    for k in range(n):
        tname, size, signed = rnd.choice(TYPES)
        bits = rnd.randint(1, 8 * size)
        shift = rnd.randint(0, 8 * size - bits)
        background = rnd.getrandbits(8 * size)
        lo, hi = (-(1 << (bits - 1)), (1 << (bits - 1)) - 1) if signed else (0, (1 << bits) - 1)
        v = rnd.choice([lo, hi, 0, rnd.randint(lo, hi), rnd.randint(lo, hi)])
        cases.append((tname, size, signed, bits, shift, background, v))
    lines = ['#include <stdio.h>', '#include <string.h>', 'int main(void) {']
    for k, (tname, size, signed, bits, shift, bg, v) in enumerate(cases):
        pad = ('%s pad:%d; ' % (tname, shift)) if shift else ''
        lines.append('  { struct s%d { %s%s f:%d; } x; unsigned long long u = 0; unsigned long long bg = %dULL;' % (k, pad, tname, bits, bg))
        lines.append('    memset(&x, 0, sizeof x); memcpy(&x, &bg, %d); x.f = (%s)(%dLL);' % (size, tname, v))
        lines.append('    memcpy(&u, &x, %d); printf("%%d %%llu %%lld\\n", %d, u, (long long)x.f); }' % (size, k))
    lines.append('  return 0; }')
    d = tempfile.mkdtemp(prefix='cffi-specval-')
    try:
        open(os.path.join(d, 'b.c'), 'w').write('\n'.join(lines))
        subprocess.run(['gcc', '-w', '-o', os.path.join(d, 'b'), os.path.join(d, 'b.c')], check=True, capture_output=True)
        out = subprocess.run([os.path.join(d, 'b')], check=True, capture_output=True, text=True).stdout
    finally:
        shutil.rmtree(d, True)
    bad = []
    for ln in out.strip().split('\n'):
        k, unit, back = ln.split()
        k, unit, back = int(k), int(unit), int(back)
        tname, size, signed, bits, shift, bg, v = cases[k]
        bs, sh = z3.BitVecVal(bits, 32), z3.BitVecVal(shift, 32)
        want_unit = _val(S.bf_write(z3.BitVecVal(bg, 64), S.W(v), bs, sh))
        if want_unit is not None:
            want_unit &= (1 << (8 * size)) - 1
        rd = _val(S.bf_read(z3.BitVecVal(unit, 64), bs, sh, z3.BoolVal(signed)))
        if rd is not None and rd >= 1 << (S.WIDE - 1):
            rd -= 1 << S.WIDE
        if want_unit != unit or rd != back:
            bad.append("%s f:%d at bit %d, background %#x, value %d: gcc stores %#x and reads %d, the spec says %r and %r"
                       % (tname, bits, shift, bg, v, unit, back, want_unit, rd))
    rep.bounded.append({'what': 'spec functions bf_write / bf_read (specs/ints.py) against gcc on random bit-field '
                                'declarations and values', 'bound': '%d random cases, seed %s' % (n, seed),
                        'checked': len(cases), 'failed': len(bad), 'details': bad[:5]})
    if bad:
        rep.errors.append("spec validation: bf_write/bf_read disagree with gcc: " + bad[0])
