"""C32 -- verify() module names are deterministic and input-sensitive."""
import os
import z3

from vf import driver, cfront, pyaudit
from vf.smt import Ob
from vf.pyexec import fmt_d, I, S
from contracts.py import flatten, vername

PID = 'C32'


def lemmas():
    """prefix-freeness of the leaf encodings (A-FMT: '%d' % n is '-'? followed by digits, and is injective)"""
    x, y, r1, r2 = z3.Strings('x y r1 r2')
    a, b = z3.Ints('a b')
    digit = z3.Range('0', '9')
    num = z3.Concat(z3.Option(z3.Re('-')), z3.Plus(digit))
    ax = lambda n: z3.InRe(fmt_d(n), num)
    inj = lambda m, n: z3.Implies(fmt_d(m) == fmt_d(n), m == n)
    nx, ny = z3.Length(x), z3.Length(y)
    es = lambda s: z3.Concat(fmt_d(z3.Length(s)), z3.StringVal('s'), s)
    ei = lambda n: z3.Concat(fmt_d(n), z3.StringVal('i'))
    hy = [ax(nx), ax(ny), ax(a), ax(b), inj(nx, ny), inj(a, b), inj(nx, a)]
    return [
        Ob('lemma:C32:str-encoding-is-uniquely-decodable', hy + [z3.Concat(es(x), r1) == z3.Concat(es(y), r2)],
           z3.And(x == y, r1 == r2), kind='lemma', fn='lemma', witness={}),
        Ob('lemma:C32:int-encoding-is-uniquely-decodable', hy + [z3.Concat(ei(a), r1) == z3.Concat(ei(b), r2)],
           z3.And(a == b, r1 == r2), kind='lemma', fn='lemma', witness={}),
        Ob('lemma:C32:str-and-int-encodings-never-share-a-prefix', hy, z3.Concat(es(x), r1) != z3.Concat(ei(a), r2),
           kind='lemma', fn='lemma', witness={}),
    ]


BATTERY = r'''
import sys, os, subprocess, tempfile, itertools
d = tempfile.mkdtemp()
prog = os.path.join(d, "p.py")
open(prog, "w").write("""
import sys, cffi, json
from cffi.verifier import Verifier
spec = json.loads(sys.argv[1])
ffi = cffi.FFI()
for c in spec['cdefs']: ffi.cdef(c)
kw = dict(spec['kw'])
if spec.get('rev'): kw = dict(reversed(list(kw.items())))
v = Verifier(ffi, spec['src'], tmpdir=sys.argv[2], **kw)
print(v.get_module_name())
if len(sys.argv) > 3: print(v._vengine._class_key)
""")
import json
def name(spec, seed="0"):
    r = subprocess.run([sys.executable, prog, json.dumps(spec), d], env=dict(os.environ, PYTHONHASHSEED=seed),
                       capture_output=True, text=True)
    if r.returncode != 0:
        raise RuntimeError(r.stderr[-300:])
    return r.stdout.strip()
base = {"cdefs": ["int f(int);", "typedef int t;"], "src": "int f(int x){return x;}",
        "kw": [["libraries", ["m", "dl"]], ["define_macros", [["A", "1"], ["B", "2"]]], ["include_dirs", ["/x"]]]}
bad = []
names = {name(base, s) for s in ("0", "1", "7", "random")} | {name(dict(base, rev=True), s) for s in ("0", "3")}
if len(names) != 1:
    bad.append("module name depends on hash seed or keyword order: %r" % sorted(names))
import re
r = subprocess.run([sys.executable, prog, json.dumps(base), d, "key"], capture_output=True, text=True)
nm, ck = r.stdout.split()[:2]
rest = nm[len("_cffi__" + ck):] if nm.startswith("_cffi__" + ck) else None
# '_cffi_<tag>_<engine key><hex 1>x<hex 2>': two variable-length hex fields need a non-hex separator
if rest is None or not re.match(r"^[0-9a-f]*x[0-9a-f]+$", rest):
    bad.append("module name %r (engine key %r) does not keep the two CRC32 halves apart (expected <hex>x<hex> after "
               "the engine key): distinct checksum pairs such as (0x0abcdef1, 0x23456789) and (0xabcdef12, 0x03456789) "
               "would share a name" % (nm, ck))
variants = [dict(base, src=base["src"] + " "), dict(base, cdefs=base["cdefs"][:1]), dict(base, cdefs=["int f(int);typedef int t;"]),
            dict(base, kw=base["kw"][:2]), dict(base, kw=[["libraries", ["m", "d", "l"]]] + base["kw"][1:]),
            dict(base, kw=[["libraries", ["md", "l"]]] + base["kw"][1:]), dict(base, kw=[["libraries", ["m", "dl", ""]]] + base["kw"][1:]),
            dict(base, kw=[["libraries", "mdl"]] + base["kw"][1:])]
seen = {next(iter(names)): "base"}
for k, v in enumerate(variants):
    try:
        n = name(v)
    except RuntimeError as e:
        continue
    if n in seen:
        bad.append("distinct inputs share the module name %s (variant %d and %s)" % (n, k, seen[n]))
    seen[n] = "variant %d" % k
if bad:
    print("FAIL " + " ;; ".join(bad[:3])); sys.exit(1)
print("ok")
'''


def concretise(ob, model):
    return BATTERY


def more(rep, tu):
    obs = []
    for rel in ('src/cffi/ffiplatform.py', 'src/cffi/verifier.py'):
        a = pyaudit.audit(os.path.join(cfront.REPO, rel))
        for s_ in a['sites']:
            obs.append(Ob("%s:L%d:determinism[%s over the set %s is order-free]" % (s_['file'], s_['line'], s_['kind'],
                                                                                 s_['set']), [],
                          z3.BoolVal(bool(s_['discharged'])), kind='determinism', fn=s_['set'], line=s_['line']))
        for h in a['hash_calls']:
            obs.append(Ob("%s:L%d:determinism[%s() does not reach the key]" % (h['file'], h['line'], h['call']), [],
                          z3.BoolVal(bool(h['discharged'])), kind='determinism', fn=h['in'], line=h['line']))
        obs.append(Ob("%s:determinism[audit: no set iteration, hash() or id() on the key path]" % os.path.basename(rel),
                      [], z3.BoolVal(all(s_['discharged'] for s_ in a['sites']) and
                                     all(h['discharged'] for h in a['hash_calls'])), kind='determinism', fn='audit'))
    return obs, []


def main(tier, seed):
    return driver.run_property(
        PID, tier, seed, py_items=flatten.items() + vername.items(), lemmas=lambda: lemmas() + vername.injectivity_lemma(), more=more, concretise=concretise,
        trusted=["A-FMT: '%d' % n is an optional '-' followed by decimal digits and is injective in n (two axioms on the "
                 "uninterpreted fmt_d)",
                 "injectivity of nested lists/dicts follows from the leaf lemmas by structural induction over the "
                 "encoding (prefix-freeness composes); that induction is not mechanised; list == tuple and bool == int "
                 "flatten identically by design",
                 "not decided: Verifier.__init__'s use of the flattened text (version, preamble, cdef sources joined with "
                 "NUL, CRC32 halves) -- in particular the NUL join is not injective when a component contains U+0000 "
                 "(recorded divergence, DESIGN.md)"],
        technique="contract-based deductive verification of the real _flatten per object kind (pyvc, z3 strings), "
                  "prefix-freeness lemmas discharged by cvc5, determinism by audit + the dict-order-independence clause")
