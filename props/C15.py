"""C15 -- character arrays and strings round-trip, including the terminator."""
import z3

from vf import driver
from vf.smt import Ob
from contracts.c import allc, wchar

PID = 'C15'
FUNCS = ['_my_PyUnicode_AsChar16', '_my_PyUnicode_AsChar16#loop', '_my_PyUnicode_AsChar32',
         '_my_PyUnicode_SizeAsChar16'] + wchar.SCANS
BV = z3.BitVecVal


def lemmas():
    """per code point: the surrogate pair written by the encoder decodes back to the code point (the joining
    rule of _my_PyUnicode_FromChar16), and a BMP unit that is not a surrogate stands for itself"""
    ch = z3.BitVec('cp', 32)
    v = ch - 0x10000
    hi = BV(0xD800, 32) | z3.LShR(v, 10)
    lo = BV(0xDC00, 32) | (v & 0x3FF)
    joined = (((hi & 0x3FF) << 10) | (lo & 0x3FF)) + 0x10000
    astral = z3.And(z3.UGT(ch, BV(0xFFFF, 32)), z3.ULE(ch, BV(0x10FFFF, 32)))
    return [Ob('lemma:C15:surrogate-pair-of-an-astral-code-point-decodes-back', [astral],
               z3.And(joined == ch, z3.UGE(hi, BV(0xD800, 32)), z3.ULE(hi, BV(0xDBFF, 32)),
                      z3.UGE(lo, BV(0xDC00, 32)), z3.ULE(lo, BV(0xDFFF, 32))),
               kind='lemma', fn='lemma', witness={'cp': ch})]


BATTERY = r'''
import sys
import cffi
ffi = cffi.FFI()
bad = []
CPS = [0x41, 0xFF, 0x100, 0xD7FF, 0xE000, 0xFFFE, 0xFFFF, 0x10000, 0x12345, 0x10FFFF] + %(extra)r
STRS = ["", "a", "abé", "￿", "a￿b", "x\U00012345y", "\U0010ffff", "￿\U00010000￿"] + \
       ["%%s%%s%%s" %% (chr(a), chr(b), chr(a)) for a in CPS for b in CPS[:4]]
for T, usize in (("wchar_t", 4), ("char16_t", 2), ("char32_t", 4)):
    for s in STRS:
        units = sum(2 if (usize == 2 and ord(c) > 0xFFFF) else 1 for c in s)
        try:
            p = ffi.new(T + "[]", s)
        except Exception as e:
            bad.append("new(%%s[], %%r) raised %%s" %% (T, s, e.__class__.__name__)); continue
        if len(p) != units + 1:
            bad.append("len(new(%%s[], %%r)) == %%d, expected %%d" %% (T, s, len(p), units + 1))
        if "\0" not in s and ffi.string(p) != s:
            bad.append("string(new(%%s[], %%r)) == %%r" %% (T, s, ffi.string(p)))
        # assigning a shorter string over a longer one: string + one zero unit, later elements unchanged
        q = ffi.new("struct { %%s a[12]; } *" %% T)
        q.a = "Z" * 12 if usize == 4 else "Z" * 12
        if units < 12 and "\0" not in s:
            q.a = s
            got = [ord(x) if isinstance(x, str) else x for x in ffi.unpack(ffi.cast("uint%%d_t *" %% (8 * usize), q.a), 12)]
            enc = []
            for c in s:
                o = ord(c)
                if usize == 2 and o > 0xFFFF:
                    o -= 0x10000; enc += [0xD800 | (o >> 10), 0xDC00 | (o & 0x3FF)]
                else:
                    enc.append(o)
            want = enc + [0] + [ord("Z")] * (11 - len(enc))
            if got != want:
                bad.append("%%s a[12] = %%r over 'Z'*12: units %%r, expected %%r" %% (T, s, got, want))
            if ffi.string(q.a) != s:
                bad.append("string after assigning %%r to %%s a[12]: %%r" %% (s, T, ffi.string(q.a)))
    z = ffi.new(T + "[6]", "ab")
    if ffi.string(z, 1) != "a" or ffi.string(z) != "ab" or ffi.unpack(z, 4) != "ab\0\0":
        bad.append("%%s string/unpack with maxlen/length" %% T)
for s in (b"", b"a", b"hello", bytes(range(1, 256))):
    p = ffi.new("char[]", s)
    if ffi.string(p) != s or len(p) != len(s) + 1:
        bad.append("char[] round trip of %%r" %% s)
q = ffi.new("struct { char a[8]; } *"); q.a = b"wxyzwxyz"; q.a = b"ab"
if bytes(ffi.buffer(q.a)) != b"ab\0zwxyz":
    bad.append("char a[8] reassignment: %%r" %% bytes(ffi.buffer(q.a)))
if bad:
    print("FAIL %%d checks violate C15; first: %%s" %% (len(bad), " ;; ".join(bad[:3]))); sys.exit(1)
print("ok")
'''


def concretise(ob, model):
    extra = []
    cpv = model.get('code_point', model.get('cp'))
    if isinstance(cpv, int) and 0 < cpv <= 0x10FFFF and not (0xD800 <= cpv <= 0xDFFF):
        extra.append(cpv)
    return BATTERY % dict(extra=extra)


def main(tier, seed):
    return driver.run_property(
        PID, tier, seed, c_part=(allc.R, FUNCS), lemmas=lemmas, concretise=concretise,
        layout_types=('PyObject', 'PyTypeObject', 'PyASCIIObject', 'PyCompactUnicodeObject', 'PyUnicodeObject'),
        trusted=["T-U16: u16off(str, i), the number of UTF-16 units of the first i code points, is a ghost prefix sum "
                 "(off(i+1) = off(i) + 1 or 2; monotone; off = index for narrow kinds); instances are attached where "
                 "used; the list-level conclusion 'the written units are utf16(s)' follows from the per-iteration "
                 "contract by induction (not mechanised)",
                 "code points are read as the real PyUnicode_READ / PyUnicode_DATA header code reads them (expanded "
                 "from the CPython headers, including the state bit-fields); PyUnicode_AsUCS4 is an assumed contract",
                 "scope: the str -> units writers (_my_PyUnicode_AsChar16/AsChar32, size), the terminator, and the "
                 "zero-unit scans of ffi.string(); not in the proved scope: convert_array_from_object's sizing branch "
                 "(n++), the bytes path (memcpy of n+1), _my_PyUnicode_FromChar16/32 decoders, ffi.unpack, direct_newp; "
                 "lone surrogates in a str come back joined for char16_t (inherent to UTF-16, see DESIGN.md)"],
        technique="contract-based deductive verification: loop invariants over a ghost prefix sum, loop-body and "
                  "loop-exit contracts, memory-safety obligations; VCs from clang's AST incl. CPython header code; z3")
