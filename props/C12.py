"""C12 -- API-mode modules detect mismatches between the cdef and the C source: the checking predicates."""
import os

import z3

from vf import driver, getterinst
from vf.cexec import Contract, Frame, BV
from contracts.c import allc, cdl, apicheck
from contracts.py import structflags

PID = 'C12'
FUNCS = apicheck.C12_FUNCS
BATTERY = open(os.path.join(driver.VERIF, 'bounded', 'apicheck_battery.py')).read()

def getter_obligations(rep, backend_tu):
    """every emitted integer-constant getter, for every integer type of the constant and every expected value"""
    tu, inst, getters = getterinst.make_tu()
    R = allc.R.fork()
    names = []
    for fn, (getter, ctype_name, exp, var) in sorted(inst.items()):
        t = tu.parse_type(ctype_name)
        bits, signed = t.bits, t.signed

        class G(Contract):
            name = fn

            def xval(self, c, var=var, bits=bits, signed=signed, isbool=(ctype_name == '_Bool')):
                x = c.global_value(c.old, var, bits)
                w = z3.SignExt(72 - bits, x) if signed else z3.ZeroExt(72 - bits, x)
                return x, w

            def expected(self, c, exp=exp):
                if exp == 'EXPECTED_U':
                    e = c.global_value(c.old, 'EXPECTED_U', 64)
                    return z3.ZeroExt(8, e), e != 0
                if exp == 'EXPECTED_S':
                    e = c.global_value(c.old, 'EXPECTED_S', 64)
                    return z3.SignExt(8, e), e <= 0
                if exp == 'ZERO':
                    return z3.BitVecVal(0, 72), z3.BoolVal(True)
                return None, z3.BoolVal(True)

            def pre(self, c, isbool=(ctype_name == '_Bool')):
                x, w = self.xval(c)
                e, erange = self.expected(c)
                out = [('o-valid', c.valid(c['o'], 8)),
                       ('the literal printed by the generator is positive with the U suffix, or <= 0 without it', erange)]
                if isbool:
                    out.append(('a _Bool object holds 0 or 1', z3.ULE(x, 1)))
                return out

            def frame(self, c):
                return Frame(raw=[(c['o'], 8)])

            def witness(self, c):
                x, w = self.xval(c)
                e, _ = self.expected(c)
                d = {'constant_value_72bit': w}
                if e is not None:
                    d['cdef_value_72bit'] = e
                return d

            def post(self, c, getter=getter):
                x, w = self.xval(c)
                e, _ = self.expected(c)
                o = c.raw(c.new, c['o'], 8)
                r = c.result
                out = [('the value is delivered as (is it <= 0, value mod 2^64)',
                        z3.And((r & 1) == z3.If(w <= 0, BV(1, 32), BV(0, 32)), o == z3.Extract(63, 0, w)))]
                if e is not None:
                    out.append(('flagged as disagreeing with the cdef (bit 1) exactly when the values differ',
                                ((r & 2) != 0) == (w != e)))
                    out.append(('no other flag', (r & ~BV(3, 32)) == 0))
                elif getter == 'CFFIV_EA':
                    ev = z3.BitVecVal(4242, 72)
                    out.append(('an enumerator given a value in the cdef: flagged exactly when the C value differs',
                                ((r & 2) != 0) == (w != ev)))
                else:
                    out.append(("declared with '...' / without a value: never flagged, the compiler's value is used",
                                (r & ~BV(1, 32)) == 0))
                return out
        R.contracts[fn] = G()
        names.append(fn)
    gens = driver.gen_c_obligations(tu, R, names, rep)
    obs, covers = [], []
    for nm, o, cv, ex in gens:
        obs += o
        covers += cv
    rep.extra['getter_instances'] = len(names)
    rep.extra['emitted_getters'] = getters
    # the flag logic of Recompiler._struct_ctx is decided by the exhaustive case contract contracts/py/structflags.py;
    # in addition, as a bounded cross-check on the really emitted text: the flag word printed for five sentinel
    # structs/unions says CHECK_FIELDS exactly for the complete declarations without '...'
    got = getterinst.struct_flags(getterinst.make_tu.last_text)
    wrong = {k: sorted(v) for k, v in got.items() if v != getterinst.STRUCT_FLAGS[k]}
    rep.bounded.append({'what': "flags printed by Recompiler._struct_ctx for 5 sentinel declarations (complete, '...', "
                                "union, opaque, packed) equal the expected sets", 'bound': '5 declarations',
                        'checked': len(got), 'failed': len(wrong), 'details': wrong})
    if wrong:
        rep.violations.append("VIOLATION property=%s replay=%s obligation=recompiler.py:_struct_ctx:bounded[flags of sentinel "
                              "declarations] :: the generator printed %r no-failing-input-found" % (PID, 'none', wrong))
    return obs, covers


def concretise(ob, model):
    return BATTERY


def main(tier, seed):
    return driver.run_property(
        PID, tier, seed, c_part=(apicheck.R, FUNCS), py_items=structflags.items(), more=getter_obligations, concretise=concretise,
        layout_types=('struct _cffi_type_context_s', 'struct _cffi_global_s', 'struct _cffi_getconst_s', 'builder_c_t',
                      'PyObject', 'PyTypeObject', 'CTypeDescrObject', 'CFieldObject', 'PyListObject', 'token_t',
                      'struct _cffi_parse_info_s'),
        trusted=[], technique="contract-based deductive verification of the generated getters (cut mechanically from the "
                              "module the real recompiler emits) and of the run-time checking predicates; cvc")
