"""C30 -- declaration and type-string errors are reported as cffi errors."""
import json
import os
import subprocess
import z3

from vf import driver, cfront
from contracts.py import constexpr, preproc, parsedecl, parsetype
from contracts.c import typestr

PID = 'C30'

REPLAY = r'''
import sys, warnings
warnings.simplefilter("ignore")
import cffi
ALLOWED = (cffi.CDefError, cffi.FFIError, NotImplementedError, cffi.VerificationError, cffi.VerificationMissing)
decls = %(decls)r
bad = []
for d in decls:
    try:
        cffi.FFI().cdef(d)
    except ALLOWED:
        pass
    except Exception as e:
        bad.append("cdef(%%r) raised %%s: %%s" %% (d, e.__class__.__name__, str(e).split("\n")[0]))
# in-line typeof() on texts for which pycparser returns unusual shapes
for t in ['', ' ', '...', 'int(*)(int, ..., int)', '#define X 5\nint', 'int(*)(...)', 'foo_t', 'int[...]']:
    try:
        cffi.FFI().typeof(t)
    except ALLOWED:
        pass
    except Exception as e:
        bad.append("typeof(%%r) raised %%s: %%s" %% (t, e.__class__.__name__, str(e).split("\n")[0]))
# compiled FFIs: typeof() on strings that cannot be encoded, are empty, hold NULs ... (a crash is a FAIL: child process)
import subprocess
child = r"""
import _cffi_backend
f = _cffi_backend.FFI()
for s in ["\udc80", "int \udfff", "", "\x00", "int\x00*", "\U0010ffff", "int[", "(((((((((", "x" * 5000]:
    try:
        f.typeof(s)
    except (f.error, TypeError, ValueError):
        pass
print("child-ok")
"""
r = subprocess.run([sys.executable, "-c", child], capture_output=True, text=True)
if r.returncode != 0 or "child-ok" not in r.stdout:
    bad.append("typeof() on a compiled FFI: exit status %%d %%s" %% (r.returncode, r.stderr.strip().split("\n")[-1][:120]))
if bad:
    print("FAIL " + " ;; ".join(bad[:4])); sys.exit(1)
print("ok")
'''


def concretise(ob, model):
    l, r = model.get('left', model.get('a', 5)), model.get('right', model.get('b', 0))
    lit = lambda v: "%d" % v if v >= 0 else "(-%d)" % -v
    decls = []
    for op in ('/', '%', '<<', '>>', '+', '*'):
        decls.append("enum e { A = %s %s %s };" % (lit(l), op, lit(r)))
        decls.append("int a[%s %s %s];" % (lit(abs(l) + 1), op, lit(r)))
    tok = model.get('token')
    if isinstance(tok, str) and tok and '\n' not in tok:
        decls += ["int a[%s];" % tok, "enum e { A = %s };" % tok]
    src = model.get('csource')
    if isinstance(src, str) and src:
        decls += [src]
    decls += ['extern "Python"', 'extern "Python" ', 'int g(int);\nextern "Python+C"\n', 'extern "C + Python"   \n\t',
              'extern "Python" {', 'extern "Python" int f(int)']
    decls += ["int a[0x1p3];", "enum e { A = 0x1.p3 };", "struct s { int a:0X1P2; };", "int a[0x.8p1];", "int a[1.5e3];",
              "#define X 08\n", "#define X abc\n", "#define X 0xg\n", "static const int X = 09;"]
    # initializers of every shape after a unary operator (Parser._parse_decl)
    decls += ["struct ...;", "struct ... { int a; };", "union ... *p;", "enum ... { A };", "typedef struct ... *p_t;",
              "char typedef ...;", "typedef ... ...;", "typedef struct s ...;"]
    decls += ["#define B 5\nstatic const int K = -B;", "static const int K = -(1 + 2);", "static const int K = - -5;",
              "static const int K = -+5;", "static const int K = -sizeof(int);", "static const int K = -(int)5;",
              "int v = -w;", "static const int K = ~5;", "static const int K = -'a';", "static const long K = -0x10;",
              "static const int K = -a[0];", "static const int K = -f(1);", "static const int K = -x.y;"]
    return REPLAY % dict(decls=decls)


def macros_bounded(rep, tu):
    """bounded stand-in (never counted as proved): the '#define NAME value' path on all short values"""
    n = 4 if rep.tier == 'quick' else 5
    from vf import replay
    try:
        d = replay.build_dir()
        env = dict(os.environ, PYTHONPATH=os.path.join(d, 'src'))
        p = subprocess.run(['/venv/bin/python', os.path.join(driver.VERIF, 'bounded', 'macros_bounded.py'), str(n)],
                           capture_output=True, text=True, env=env, timeout=3000)
        res = json.loads(p.stdout.strip().split('\n')[-1])
    except Exception as e:
        rep.errors.append("bounded stand-in for _process_macros could not run: %r" % (e,))
        return
    rep.bounded.append({'what': "Parser._process_macros/_add_integer_constant on every '#define X v', real code",
                        'bound': "all v of length <= %d over the alphabet %r" % (res['max_len'], res['alphabet']),
                        'cases': res['cases'], 'violations': res['violations'], 'counts_as_proof': False})
    if res['violations']:
        path = os.path.join(driver.OUT, 'replays', 'C30-macros.py')
        os.makedirs(os.path.dirname(path), exist_ok=True)
        open(path, 'w').write(REPLAY % dict(decls=["#define X %s\n" % v for v, _ in res['first']]))
        rep.violations.append("VIOLATION property=C30 replay=%s bounded-stand-in=_process_macros :: %d of %d short "
                              "'#define' values raise a non-cffi exception, e.g. %r"
                              % (path, res['violations'], res['cases'], res['first'][:3]))


def main(tier, seed):
    return driver.run_property(
        PID, tier, seed, c_part=(typestr.R, typestr.C30_C_FUNCS), layout_types=('PyObject', 'PyTypeObject', 'CDataObject', 'FFIObject'),
        py_items=constexpr.c30_items() + preproc.items() + parsedecl.items() + parsetype.items(), concretise=concretise, extra=macros_bounded,
        trusted=["scope of the proved part: the constant-expression evaluator Parser._parse_constant/_c_div (every "
                 "AST node class and operator): no built-in operation in it can raise anything but cffi's error "
                 "classes; recursive calls through the function's own contract",
                 "Parser._parse_decl, the chain that classifies a variable declaration: a segment contract run for "
                 "decl.init = None and an instance of every node class of the installed pycparser (attribute sets from "
                 "its __slots__; reading any other attribute is AttributeError), and for a UnaryOp every operator "
                 "spelling x every node class as operand; the literal regex test is an arbitrary boolean",
                 "Parser.parse_type_and_quals (in-line typeof) on the shapes pycparser returns for `void __dummy(<text>);` -- "
                 "args None for an empty text, a Typename, an unknown ID; with and without '#define's -- and the refusal "
                 "of a bare '...' in _get_type_and_quals for a node with and without source coordinates: these shapes are "
                 "ASSUMED of pycparser (observed on the installed version, each replayed by the text that produces it)",
                 "Parser._declare on names made with '...' (whatever caller builds them)",
                 "Parser._get_struct_union_enum_type, the block that creates a new struct / union / enum type, for a name and "
                 "for '...' as the tag, with the real Parser._declare (and its assert) running inside",
                 "compiled FFIs: _ffi_type (ffi_obj.c), the entry of ffi.typeof(string) & co.: a ctype or NULL with an exception "
                 "for ANY argument, and the type-string parser is handed a C string (call-site obligation); parse_c_type, "
                 "realize_c_type_or_func, _ffi_bad_type, unwrap_fn_as_fnptr are assumed contracts here",
                 "bounded stand-in (not proof): '#define' literal processing on all short values, real code",
                 "not decided: pycparser (third party: may raise only ParseError is an assumption the property does not "
                 "grant), the regex preprocessing of cdef text, the rest of cparser.py, and the C type-string parser "
                 "parse_c_type.c (memory safety of the tokenizer is planned on the C engine)"],
        level='proof',
        technique="contract-based deductive verification: exception-escape obligations on every built-in operation "
                  "of the real evaluator, path-wise VCs from ast.parse, z3; plus a labelled bounded stand-in")
