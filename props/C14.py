"""C14 -- callbacks and extern "Python" pass values exactly and contain errors."""
import os

from vf import driver
from contracts.c import callbacks

PID = 'C14'
FUNCS = callbacks.C14_FUNCS
BATTERY = open(os.path.join(driver.VERIF, 'bounded', 'callback_battery.py')).read()


def concretise(ob, model):
    return BATTERY


def more(rep, tu):
    return callbacks.slot_obligations(), []


def main(tier, seed):
    return driver.run_property(
        PID, tier, seed, c_part=(callbacks.R, FUNCS), concretise=concretise, quick_budget=180, more=more,
        layout_types=('PyObject', 'PyVarObject', 'PyTupleObject', 'PyBytesObject', 'CTypeDescrObject'),
        trusted=["trace abstraction: convert_to_object and convert_from_object_fficallback are RECORDED, not specified, "
                 "here (which bytes / object, as which type, into which buffer, in which order): what they compute is the "
                 "subject of C03 (incl. the ffi_arg widening of callback results), C04, C05, C15",
                 "PyObject_Call / the onerror call / printing the traceback run arbitrary Python code: everything "
                 "shared is arbitrary afterwards, except (A-IMMUTABLE) the contents of the info tuple, of the "
                 "signature tuple and of the error bytes -- tuples and bytes objects are immutable --, (A-CTYPE) the size "
                 "and flags of the ctypes of the signature, (A-STACK) this frame's locals, and the engine's trace",
                 "the members of tuples are kept as whole words in a heap of their own (A-SEP: they are reached only "
                 "through PyTuple_GET_ITEM / PyTuple_SET_ITEM / Py_BuildValue)",
                 "_my_PyErr_WriteUnraisable leaves no exception pending (a model here, because it must keep the immutable "
                 "tuples; the function itself is verified in the C21 check); "
                 "PyErr_Fetch / PyErr_Restore / PyErr_NormalizeException act on the error indicator as documented",
                 "'for every argument j' is proved for one arbitrary index J, 'every byte' for one arbitrary offset K",
                 "`goto done` from the error path back to the exit block is executed by replaying that block "
                 "(Contract.replay_labels), not as a cycle",
                 "the C wrapper the recompiler emits for extern \"Python\" is not verified as C code: its slot protocol is "
                 "decided by structural obligations on the generator's Python AST (offset 8*i; by address for struct / "
                 "union / the types may_need_128_bits names) plus, for EVERY primitive type of "
                 "model.PrimitiveType.ALL_PRIMITIVE_TYPES (finite table: exhaustive), 'stored by value only if its size, "
                 "measured with gcc, is at most 8' -- one of these fails: known finding C14-complex-slot",
                 "not under contract: libffi delivering the C arguments in args[] / taking the result from *result"],
        technique="contract-based deductive verification over a trace of recorded conversions and calls (ghost sequences "
                  "assigned per loop iteration, arbitrary-index clauses); cvc")
