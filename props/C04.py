"""C04 -- ffi.cast to integer types follows C conversion rules."""
import z3

from vf import driver
from vf.smt import Ob
from contracts.c import allc, ints, cast
from specs import ints as S

PID = 'C04'
FUNCS = ['read_raw_signed_data', 'read_raw_unsigned_data', 'write_raw_integer_data',
         '_my_PyLong_AsLongLong', '_my_PyLong_AsUnsignedLongLong', 'convert_to_object',
         '_new_casted_primitive', 'new_simple_cdata', '_my_PyObject_AsBool',
         'cast_to_integer_or_char', 'do_cast', 'cdata_int']
BV = z3.BitVecVal


def lemmas():
    """the stored bytes, read back with T's signedness, are x reduced modulo 2^(8*sizeof T) into T's range"""
    size = z3.BitVec('size', 64)
    sgn = z3.Bool('signed')
    v = z3.BitVec('v', S.WIDE)                       # any integer |v| < 2^79 (wider ones: see A-PYINT, v mod 2^64)
    stored = cast.low_bytes(z3.Extract(63, 0, v), size)
    back = z3.If(sgn, S.wide(S.signed_of_unit(stored, size), True), S.wide(stored, False))
    lo = S.int_lo(size, sgn)
    modulus = S.pow2(S.W(8) * S.wide(size, False))
    # mathematical definition, independent of bit tricks: the unique r in [lo, lo+modulus) with r = v (mod modulus)
    in_rng = z3.And(back >= lo, back < lo + modulus)
    congruent = z3.URem(back - v, modulus) == S.W(0)
    bound = z3.And(v > -S.pow2(S.W(79)), v < S.pow2(S.W(79)))
    wit = {'size': size, 'signed01': z3.If(sgn, BV(1, 8), BV(0, 8)), 'v_wide': v}
    return [Ob('lemma:C04:readback-is-in-T-range', [ints.size_ok(size), bound], in_rng, kind='lemma', fn='lemma',
               witness=wit),
            Ob('lemma:C04:readback-is-congruent-to-x-mod-2^(8*size)', [ints.size_ok(size), bound], congruent,
               kind='lemma', fn='lemma', witness=wit)]


TYPES = {(1, True): 'signed char', (2, True): 'short', (4, True): 'int', (8, True): 'long long',
         (1, False): 'unsigned char', (2, False): 'unsigned short', (4, False): 'unsigned int',
         (8, False): 'unsigned long long'}

REPLAY = r'''
import sys
import cffi
T, SIZE, SIGNED, ISBOOL, KIND, V, ADDR, BYTE = %(t)r, %(size)d, %(signed)r, %(isbool)r, %(kind)d, %(v)d, %(addr)d, %(byte)d
ffi = cffi.FFI()
if KIND == 0:
    src, x = V, V
elif KIND == 1:
    src, x = bytes([BYTE]), BYTE
else:
    src, x = ffi.cast("char *", ADDR), ADDR
try:
    got = int(ffi.cast(T, src))
except Exception as e:
    print("FAIL cast(%%r, %%r) raised %%r" %% (T, src, e)); sys.exit(1)
if ISBOOL:
    want = 1 if x != 0 else 0
else:
    m = 1 << (8 * SIZE)
    want = x %% m
    if SIGNED and want >= m // 2:
        want -= m
if got != want:
    print("FAIL int(cast(%%r, %%r)) == %%r, C conversion gives %%r" %% (T, src, got, want)); sys.exit(1)
if KIND == 2 and SIZE == 8:
    back = ffi.cast("char *", ffi.cast(T, src))
    if int(ffi.cast("uintptr_t", back)) != ADDR %% (1 << 64):
        print("FAIL pointer -> %%s -> pointer changed the address" %% T); sys.exit(1)
print("ok")
'''


def concretise(ob, model):
    if 'size' not in model:
        return None
    size = model['size']
    if 'flags' in model:
        signed, isbool = bool(model['flags'] & 1), bool(model['flags'] & ints.CT_IS_BOOL)
    else:
        signed, isbool = bool(model.get('signed01', 0)), False
    t = '_Bool' if isbool else TYPES.get((size, signed))
    if t is None:
        return None
    v = model.get('v_sat80')
    if v is not None:
        v = v - (1 << 80) if v >= 1 << 79 else v
    elif 'v_wide' in model:
        v = model['v_wide']
        v = v - (1 << S.WIDE) if v >= 1 << (S.WIDE - 1) else v
    else:
        v = model.get('unit', 0)
    return REPLAY % dict(t=t, size=size, signed=signed, isbool=isbool, kind=model.get('src_kind', 0), v=v,
                         addr=model.get('src_addr', 0), byte=model.get('src_byte', 0))


def main(tier, seed):
    return driver.run_c_property(
        PID, tier, seed, allc.R, FUNCS, lemmas=lemmas, concretise=concretise,
        layout_types=('CTypeDescrObject', 'PyObject', 'PyTypeObject', 'CDataObject', 'CDataObject_casted_primitive',
                      'PyVarObject', 'PyBytesObject'),
        trusted=["scope: integer target types (incl. _Bool, enums' base types) with sources Python int/bool, 1-byte "
                 "bytes, pointer/array/function cdata; pointer targets with pointer-like cdata sources",
                 "not decided: float sources (go through the type's nb_int slot: arbitrary code for the engine), "
                 "1-character str sources and character target types (C15's helpers), integer-cdata sources of "
                 "pointer casts (the 'and back' half of pointer<->intptr_t uses int(cdata) through a type slot)",
                 "trusted cffi function: try_extract_directfnptr (only its 'not a builtin function object -> NULL' "
                 "clause is used)"],
        technique="contract-based deductive verification: contracts on cast_to_integer_or_char / do_cast / cdata_int "
                  "and their callees, VCs from clang's AST, z3 bit-vectors")
