"""C02 -- bit-field reads and writes are range-exact, round-trip and isolated."""
import z3

from vf import cfront, driver, smt
from vf.smt import Ob
from contracts.c import ints
from specs import ints as S

PID = 'C02'
FUNCS = ["read_raw_signed_data", "read_raw_unsigned_data", "write_raw_integer_data", "_my_PyLong_AsLongLong", "_my_PyLong_AsUnsignedLongLong", "convert_to_object", "convert_from_object",
         'convert_to_object_bitfield', 'convert_from_object_bitfield', 'convert_field_from_object']

BV = z3.BitVecVal


def lemmas():
    """Spec-level lemmas that turn the two contracts into the property statement."""
    unit = z3.BitVec('unit', 64)
    size = z3.BitVec('size', 64)
    bs, sh = z3.BitVec('bitsize', 16), z3.BitVec('bitshift', 16)
    bs2, sh2 = z3.BitVec('bitsize2', 16), z3.BitVec('bitshift2', 16)
    sgn, sgn2 = z3.Bool('signed'), z3.Bool('signed2')
    v = z3.BitVec('v', S.WIDE)
    wf = S.bitfield_wf(size, bs, sh)
    wf2 = S.bitfield_wf(size, bs2, sh2)
    ok = S.bf_in_range(v, bs, sgn)
    new = S.bf_write(unit, v, bs, sh)
    wit = {'unit': unit, 'size': size, 'bitsize': bs, 'bitshift': sh, 'signed01': z3.If(sgn, BV(1, 8), BV(0, 8)),
           'v_wide': v}
    fm = z3.Extract(63, 0, (S.pow2(S.wide(bs, True)) - S.W(1)) << S.wide(sh, True))   # the field's own bits
    special = z3.And(sgn, S.wide(bs, True) == S.W(1), v == S.W(1))
    out = [
        Ob('lemma:C02:read-after-write-returns-v', [wf, ok],
           S.bf_read(new, bs, sh, sgn) == z3.If(special, S.W(-1), v), kind='lemma', fn='lemma', witness=wit),
        Ob('lemma:C02:write-keeps-every-bit-outside-the-field', [wf, ok],
           (new & ~fm) == (unit & ~fm), kind='lemma', fn='lemma', witness=wit),
        Ob('lemma:C02:neighbouring-field-unchanged-by-write',
           [wf, wf2, ok, z3.Or(z3.SignExt(48, sh) + z3.SignExt(48, bs) <= z3.SignExt(48, sh2),
                               z3.SignExt(48, sh2) + z3.SignExt(48, bs2) <= z3.SignExt(48, sh))],
           S.bf_read(new, bs2, sh2, sgn2) == S.bf_read(unit, bs2, sh2, sgn2), kind='lemma', fn='lemma',
           witness=dict(wit, bitsize2=bs2, bitshift2=sh2)),
        Ob('lemma:C02:write-stays-inside-the-storage-unit', [wf, ok, size < 8],
           z3.LShR(new, 8 * size) == z3.LShR(unit, 8 * size), kind='lemma', fn='lemma', witness=wit),
        Ob('lemma:C02:read-value-is-in-range', [wf],
           S.bf_in_range(S.bf_read(unit, bs, sh, sgn), bs, sgn), kind='lemma', fn='lemma', witness=wit),
    ]
    return out


TYPES = {(1, True): 'signed char', (2, True): 'short', (4, True): 'int', (8, True): 'long long',
         (1, False): 'unsigned char', (2, False): 'unsigned short', (4, False): 'unsigned int',
         (8, False): 'unsigned long long'}

REPLAY_BODY = r'''
import sys
import cffi
SIZE, BITSIZE, BITSHIFT, SIGNED, UNIT, V = %(size)d, %(bitsize)d, %(bitshift)d, %(signed)r, %(unit)d, %(v)r
T = %(tname)r
ffi = cffi.FFI()
pad = ("%%s :%%d; " %% (T, BITSHIFT)) if BITSHIFT else ""
ffi.cdef("struct s { %%s%%s x:%%d; };" %% (pad, T, BITSIZE))
assert ffi.sizeof("struct s") == SIZE, ("layout", ffi.sizeof("struct s"))
mask = (1 << BITSIZE) - 1

def spec_read(unit):
    f = (unit >> BITSHIFT) & mask
    return f - (1 << BITSIZE) if SIGNED and f >= (1 << (BITSIZE - 1)) else f

def in_range(v):
    if SIGNED:
        return -(1 << (BITSIZE - 1)) <= v <= (1 << (BITSIZE - 1)) - 1 or (BITSIZE == 1 and v == 1)
    return 0 <= v <= mask

bad = []
p = ffi.new("struct s *")
buf = ffi.buffer(p)
unit = UNIT & ((1 << (8 * SIZE)) - 1)
buf[0:SIZE] = unit.to_bytes(SIZE, "little")
got = p.x
if got != spec_read(unit):
    bad.append("read: unit=%%#x -> p.x == %%r, C reads %%r" %% (unit, got, spec_read(unit)))
if V is not None:
    try:
        p.x = V
        accepted = True
    except OverflowError:
        accepted = False
    after = int.from_bytes(bytes(buf[0:SIZE]), "little")
    if accepted != in_range(V):
        bad.append("store of %%r %%s but in_range=%%r" %% (V, "accepted" if accepted else "rejected", in_range(V)))
    want = (unit & ~(mask << BITSHIFT)) | ((V & mask) << BITSHIFT) if in_range(V) else unit
    if accepted == in_range(V) and after != want:
        bad.append("after store of %%r: unit == %%#x, expected %%#x" %% (V, after, want))
    if accepted and in_range(V):
        exp = -1 if (SIGNED and BITSIZE == 1 and V == 1) else V
        if p.x != exp:
            bad.append("read after store of %%r returns %%r" %% (V, p.x))
if bad:
    print("FAIL %%s x:%%d at bit %%d: %%s" %% (T, BITSIZE, BITSHIFT, "; ".join(bad)))
    sys.exit(1)
print("ok")
'''


def concretise(ob, model):
    need = ('size', 'bitsize', 'bitshift')
    if not all(k in model for k in need):
        return None
    size, bs, sh = model['size'], model['bitsize'], model['bitshift']
    if 'flags' in model:
        signed = bool(model['flags'] & 1)
    else:
        signed = bool(model.get('signed01', 0))
    if (size, signed) not in TYPES or not (1 <= bs and 0 <= sh and sh + bs <= 8 * size):
        return None
    v = None
    if 'v_sat80' in model:
        v = model['v_sat80']
        if v >= 1 << 79:
            v -= 1 << 80
    elif 'v_wide' in model:
        v = model['v_wide']
        if v >= 1 << (S.WIDE - 1):
            v -= 1 << S.WIDE
    return REPLAY_BODY % dict(size=size, bitsize=bs, bitshift=sh, signed=signed, unit=model.get('unit', 0), v=v,
                              tname=TYPES[(size, signed)])


TRUSTED = [
    "T-CLANG: clang-14 AST/types of the real translation unit equal gcc's view (record layouts cross-checked with gcc on every run)",
    "T-SMT: z3 5.1 / cvc5 1.0.3 soundness",
    "T-GEN: the C verification-condition generator vf/cexec.py (two's-complement wrap under -fno-strict-overflow, "
    "GCC shift semantics, field-heap + byte-heap memory model under type safety and A-SEP)",
    "T-API: assumed contracts of PyLong_AsLongLong, PyLong_From*, PyErr_*, PyObject_Str, memcpy (contracts/c/base.py)",
    "A-PYINT: Python ints abstracted by (value saturated to 80 bits, value mod 2^64) -- exact for these functions",
    "A-ALLOC: object allocation does not fail; A-REFCNT: reference counts not modelled",
    "T-SPEC: 'the value C code reads' is specs/ints.py:bf_read; validated against gcc-compiled readers (thorough tier, sampled)",
]


def main(tier, seed):
    rep = driver.Report(PID, tier, seed)
    tu = cfront.load_tu()
    keys = [tu.parse_type(t).name for t in ('CTypeDescrObject', 'CFieldObject', 'PyObject', 'PyTypeObject')]
    try:
        rep.extra['record_layout_asserts_checked_with_gcc'] = cfront.check_layouts(tu, keys)
    except cfront.FrontEndError as e:
        rep.errors.append(str(e))
    budget = 60 if tier == 'quick' else 600
    gens = driver.gen_c_obligations(tu, ints.R, FUNCS, rep)
    obs, covers = [], []
    for nm, o, c, ex in gens:
        obs += o
        covers += c
    lem = lemmas()
    rep.lemmas = [o.name for o in lem]
    obs += lem
    driver.apply_known(rep, obs)
    driver.run_obligations(rep, obs, budget, covers)
    rep.assumptions = TRUSTED + ["assumed contract: %s -- %s" % (k, v) for k, v in sorted(ints.R.assumed.items())
                                 if k in ('PyLong_AsLongLong', 'PyLong_FromLong', 'PyLong_FromLongLong',
                                          'PyLong_FromUnsignedLongLong', 'PyErr_Occurred', 'PyErr_Format',
                                          'PyObject_Str', 'PyUnicode_AsUTF8', 'memcpy', 'Py_FatalError',
                                          'Py_XDECREF')]
    if tier == 'thorough':
        from props import specval
        specval.bitfield_vs_gcc(rep, seed, 300)
    return driver.finish(rep, level='proof', trusted_base=TRUSTED, concretise=concretise,
                         technique="contracts on the real C functions; VCs generated from clang's AST of the current "
                                   "source, discharged by z3/cvc5 (64-bit bit-vectors, all widths/shifts/units/ints)")
