"""C27 -- non-aggregate ctypes are canonical over any history (the unique_cache of _cffi_backend.c)."""
import os

from vf import driver
from contracts.c import uniq

PID = 'C27'
FUNCS = uniq.C27_FUNCS
BATTERY = open(os.path.join(driver.VERIF, 'bounded', 'uniq_battery.py')).read()


def concretise(ob, model):
    return BATTERY


def more(rep, tu):
    return uniq.nonvacuity(tu), []


def main(tier, seed):
    return driver.run_property(
        PID, tier, seed, c_part=(uniq.R, FUNCS), concretise=concretise, quick_budget=300, more=more,
        layout_types=('PyObject', 'PyTypeObject', 'CTypeDescrObject'),
        trusted=["ghost state uc_map (the dict unique_cache by key CONTENT), wr_target (weak references), ct_live (ctype "
                 "objects not yet deallocated) with invariant I1/I2 (contracts/c/uniq.py); the dict, weakref and bytes "
                 "C-API functions are assumed contracts over this ghost state (A-DICT: bytes keys are compared by "
                 "content; PyObject_ClearWeakRefs kills every weak reference to the dying object)",
                 "key values: (length, word 0, word 1) for keys of one or two words -- void, primitive, pointer, array; "
                 "function types' longer keys are out of scope of get_unique_type's contract (their construction in "
                 "new_function_type is not under contract); new_primitive_type / new_void_type are not under contract "
                 "(static table rows / a string literal as the key word)",
                 "ctypedescr_new_on_top is an assumed contract (a new live ctype; its name splicing is C08's subject)",
                 "A-REFCNT: that ctypedescr_dealloc runs exactly when the last reference goes, and that a type's "
                 "components outlive it, is CPython's reference counting; A-SEP: distinct live objects have distinct "
                 "addresses (so keys made of addresses of live components are injective)",
                 "the Python-level cache model.global_cache (WeakValueDictionary) is not under contract"],
        technique="contract-based deductive verification: cache invariant over ghost maps (quantified, arrays) preserved "
                  "by get_or_insert_unique_type / remove_dead_unique_reference / ctypedescr_dealloc; key construction of "
                  "new_pointer_type / new_array_type; cvc")
