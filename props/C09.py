"""C09 -- integer constant expressions in cdef evaluate as C evaluates them."""
import re
import z3

from vf import driver
from contracts.py import constexpr

PID = 'C09'

REPLAY = r'''
import sys, os, subprocess, tempfile, warnings
warnings.simplefilter("ignore")
import cffi
OPS, PAIRS, CHARS = %(ops)r, %(pairs)r, %(chars)r
def c_eval(exprs):
    """ground truth from gcc: values of long long constant expressions"""
    d = tempfile.mkdtemp()
    src = '#include <stdio.h>\nint main(void){\n' + "".join('printf("%%%%lld\\n", (long long)(%%s));\n' %% e for e in exprs) + 'return 0;}\n'
    open(os.path.join(d, "t.c"), "w").write(src)
    r = subprocess.run(["gcc", "-w", "-o", os.path.join(d, "t"), os.path.join(d, "t.c")], capture_output=True, text=True)
    if r.returncode != 0:
        return None
    return [int(x) for x in subprocess.run([os.path.join(d, "t")], capture_output=True, text=True).stdout.split()]
def lit(v):
    return "%%dLL" %% v if v >= 0 else "(-%%dLL-1)" %% (-v - 1)
def cdef_lit(v):
    return "%%d" %% v if v >= 0 else "(-%%d-1)" %% (-v - 1)
bad = []
I64 = lambda v: -(1 << 63) <= v < (1 << 63)
todo = []
for op in OPS:
    for (l, r) in PAIRS:
        if not (I64(l) and I64(r)):
            continue
        if op in "/%%" and r == 0: continue
        if op in ("<<", ">>") and not (0 <= r < 63): continue
        if op == "<<" and (l < 0 or l >= (1 << (62 - r))): continue
        if op in "+-*":
            m = {"+": l + r, "-": l - r, "*": l * r}[op]
            if not I64(m): continue
        if op in "/%%" and l == -(1 << 63) and r == -1: continue
        todo.append((l, op, r))
wants = c_eval(["%%s %%s %%s" %% (lit(l), op, lit(r)) for (l, op, r) in todo]) if todo else []
for (l, op, r), want in zip(todo, wants or []):
    ffi = cffi.FFI()
    try:
        ffi.cdef("enum e { PAD = -1, A = %%s %%s %%s, PAD2 = 1 };" %% (cdef_lit(l), op, cdef_lit(r)))
        got = ffi.typeof("enum e").relements["A"]
    except Exception as e:
        got = "%%s: %%s" %% (e.__class__.__name__, str(e).split("\n")[0])
    if got != want:
        bad.append("%%d %%s %%d: cffi %%r, gcc %%r" %% (l, op, r, got, want))
for ch in CHARS:
    want = c_eval(["'%%s'" %% ch])
    ffi = cffi.FFI()
    try:
        ffi.cdef("enum e { A = '%%s' };" %% ch)
        got = ffi.typeof("enum e").relements["A"]
    except Exception as e:
        got = "%%s: %%s" %% (e.__class__.__name__, str(e).split("\n")[0])
    if want is not None and got != want[0]:
        bad.append("'%%s': cffi %%r, gcc %%r" %% (ch, got, want[0]))
if bad:
    print("FAIL %%d constant expressions differ from gcc; first: %%s" %% (len(bad), " ;; ".join(bad[:4]))); sys.exit(1)
print("ok")
'''

MAGS = [(1 << 63) - 1, (1 << 62) - 1, 36028797018963967, (1 << 53) + 1, 0x1000000000000000, 1 << 31, (1 << 31) - 1,
        10, 7, 3, 2, 1, 0]


def concretise(ob, model):
    m = re.search(r"value of l (\S+) r", ob.name)
    ops = [m.group(1)] if m else []
    if 'Parser._c_div' in ob.name:
        ops = ['/', '%']
    pairs = []
    if 'left' in model and 'right' in model:
        pairs.append((model['left'], model['right']))
    if 'a' in model and 'b' in model:
        pairs.append((model['a'], model['b']))
    for a in MAGS:
        for b in MAGS[:-1]:
            for sa in (1, -1):
                for sb in (1, -1):
                    pairs.append((sa * a, sb * b))
    chars = []
    if 'character constant' in ob.name:
        chars = ['a', 'z', '0', '\\\\n', '\\\\0', '\\\\t', '\\\\\\\\', "\\\\'", '\\\\a', '\\\\r']
        if 'ch_code' in model and 32 < model['ch_code'] < 127 and chr(model['ch_code']) not in "'\\":
            chars.append(chr(model['ch_code']))
    if not ops and not chars:
        ops = ['+', '-', '*', '/', '%', '<<', '>>', '&', '|', '^']
    return REPLAY % dict(ops=ops, pairs=pairs[:700], chars=chars)


def main(tier, seed):
    return driver.run_property(
        PID, tier, seed, py_items=constexpr.c09_items(), concretise=concretise,
        trusted=["T-SPEC: the C value of an operator application on mathematical integers (truncating division; "
                 "shifts as multiplication / floor division by 2^n; & | ^ as uninterpreted functions shared by both "
                 "sides, i.e. only *which* operation is applied to *which* operands is decided for them) whenever the "
                 "C evaluation is defined in a signed type; structural induction: recursive calls are used through "
                 "_parse_constant's own contract (ghost cvalue(node))",
                 "not decided here: decimal/octal/hex literal text -> value (string-to-int parsing), the u/l suffix "
                 "and the *typing* of constants (unsigned operands wrap in C: cffi computes on unbounded ints -- see "
                 "DESIGN.md, recorded divergence), '#define'/'static const' literals, enumerator auto-increment"],
        technique="contract-based deductive verification: one contract instance per AST node class/operator of the "
                  "real Parser._parse_constant and _c_div, VCs by path-wise symbolic execution of ast.parse, z3 Int")
