"""C11 -- out-of-line ABI module is equivalent to the in-line FFI (serialisation round trip)."""
import z3

from vf import driver
from vf.smt import Ob
from contracts.c import allc, cdl
from contracts.py import opcode

PID = 'C11'
FUNCS = ['cdl_4bytes', 'cdl_opcode', '_cdl_realize_global_int', 'realize_global_int', 'ffiobj_init#types-loop',
         'ffiobj_init#globals-loop']
BV = z3.BitVecVal


def lemmas():
    op, arg = z3.BitVec('op', 64), z3.BitVec('arg', 64)
    word32 = z3.Extract(31, 0, (arg << 8) | op)                 # what enc4 keeps: the low 32 bits
    decoded = z3.SignExt(32, word32)                            # cdl_opcode
    getop = z3.ZeroExt(56, z3.Extract(7, 0, decoded))           # _CFFI_GETOP
    getarg = decoded >> 8                                       # _CFFI_GETARG (arithmetic shift)
    rng = [z3.ULT(op, BV(256, 64)), arg >= BV(-(1 << 23), 64), arg < BV(1 << 23, 64)]
    o = z3.BitVec('o', 80)
    neg = z3.If(o <= 0, BV(1, 32), BV(0, 32))
    value = z3.Extract(63, 0, o)
    back = z3.If(neg == 0, z3.ZeroExt(16, value), z3.SignExt(16, value))
    n = z3.BitVec('n', 64)
    return [
        Ob('lemma:C11:GETOP(decode(encode(op,arg)))==op', rng, getop == op, kind='lemma', fn='lemma',
           witness={'op': op, 'arg': arg}),
        Ob('lemma:C11:GETARG(decode(encode(op,arg)))==arg', rng, getarg == arg, kind='lemma', fn='lemma',
           witness={'op': op, 'arg': arg}),
        Ob('lemma:C11:decode4(encode4(n))==n-for-int32', [n >= BV(-(1 << 31), 64), n < BV(1 << 31, 64)],
           z3.SignExt(32, z3.Extract(31, 0, n)) == n, kind='lemma', fn='lemma', witness={'n': n}),
        Ob('lemma:C11:integer-constant-(o<=0, o mod 2^64)-decodes-to-o',
           [o >= BV(-(1 << 63), 80), o <= BV((1 << 64) - 1, 80)], back == o, kind='lemma', fn='lemma',
           witness={'o': o}),
    ]


BATTERY = r'''
import sys, os, tempfile, importlib, warnings
warnings.simplefilter("ignore")
import cffi
VALS = [-(1 << 63), -(1 << 31) - 1, -1, 0, 1, 255, 256, (1 << 31) - 1, 1 << 31, (1 << 32) - 1, 1 << 32, (1 << 63) - 1,
        1 << 63, (1 << 63) + 12345, (1 << 64) - 1] + %(extra)r
lines = []
for k, v in enumerate(VALS):
    if v >= 0:
        lines.append("#define C%%d %%d" %% (k, v))
    lines.append("enum e%%d { E%%d = %%d, F%%d };" %% (k, k, v, k) if v < (1 << 64) - 1 and v != (1 << 63) - 1 else
                 "enum e%%d { E%%d = %%d };" %% (k, k, v))
for k in range(300):                       # type indices beyond one byte
    lines.append("typedef struct { char x[%%d]; } T%%d;" %% (k + 1, k))
lines.append("typedef int (*fn_t)(T299 *, long long, ...); struct big { T0 a; T299 b[3]; unsigned bf:7; };")
src = "\n".join(lines)
a = cffi.FFI(); a.cdef(src)
b = cffi.FFI(); b.cdef(src); b.set_source("_c11_mod", None)
d = tempfile.mkdtemp(); b.emit_python_code(os.path.join(d, "_c11_mod.py")); sys.path.insert(0, d)
o = importlib.import_module("_c11_mod").ffi
bad = []
la, lo = a.dlopen(None), o.dlopen(None)
for k, v in enumerate(VALS):
    names = (["C%%d" %% k] if v >= 0 else []) + ["E%%d" %% k]
    for nm in names:
        try:
            x, y = getattr(la, nm), getattr(lo, nm)
            if o.integer_const(nm) != y:
                y = ("lib", y, "integer_const", o.integer_const(nm))
        except Exception as e:
            x, y = "in-line/out-of-line", "%%s: %%s" %% (e.__class__.__name__, e)
        if x != y or x != v:
            bad.append("integer_const(%%s): declared %%d, in-line %%r, out-of-line %%r" %% (nm, v, x, y))
    try:
        ta, to = a.typeof("enum e%%d" %% k), o.typeof("enum e%%d" %% k)
        if (a.sizeof(ta), ta.relements) != (o.sizeof(to), to.relements):
            bad.append("enum e%%d differs: %%r vs %%r" %% (k, ta.relements, to.relements))
    except Exception as e:
        bad.append("typeof(enum e%%d) raised %%s: %%s" %% (k, e.__class__.__name__, e))
for k in (0, 1, 127, 128, 255, 256, 299):
    if o.sizeof("T%%d" %% k) != k + 1:
        bad.append("sizeof(T%%d) out-of-line = %%d" %% (k, o.sizeof("T%%d" %% k)))
for t in ("fn_t", "struct big"):
    if a.typeof(t).cname != o.typeof(t).cname or (t != "fn_t" and [(n, f.offset, f.bitsize) for n, f in a.typeof(t).fields] != [(n, f.offset, f.bitsize) for n, f in o.typeof(t).fields]):
        bad.append("%%s differs between in-line and out-of-line" %% t)
if [x.cname for x in a.typeof("fn_t").args] != [x.cname for x in o.typeof("fn_t").args]:
    bad.append("fn_t argument types differ")
if bad:
    print("FAIL %%d differences; first: %%s" %% (len(bad), " ;; ".join(bad[:3]))); sys.exit(1)
print("ok")
'''


def concretise(ob, model):
    extra = []
    for k in ('o', 'o_mod64', 'value', 'n'):
        if k in model and isinstance(model[k], int) and -(1 << 63) <= model[k] < (1 << 64):
            extra.append(model[k])
    return BATTERY % dict(extra=extra)


def main(tier, seed):
    allc.R.models['<indirect>'] = cdl.getconst_call
    return driver.run_property(
        PID, tier, seed, c_part=(allc.R, FUNCS), py_items=opcode.items(), lemmas=lemmas, concretise=concretise,
        layout_types=('struct _cffi_type_context_s', 'struct _cffi_global_s', 'struct _cffi_getconst_s',
                      'cdl_intconst_t', 'builder_c_t', 'PyObject', 'PyTypeObject', 'PyTupleObject', 'PyBytesObject'),
        trusted=["scope: the serialisation round trip only -- Python side format_four_bytes / CffiOp.as_python_bytes, "
                 "C side cdl_4bytes / cdl_opcode / _cdl_realize_global_int / realize_global_int and two loops of "
                 "ffiobj_init verified as loop-body contracts (what surrounds the loops in ffiobj_init -- argument "
                 "parsing, allocation, the struct/enum/typename loops -- is not verified)",
                 "bridging assumption: '%02X' % b followed by Python's b'\\xHH' literal denotes byte b (A-PY); the Int-"
                 "level bytes (n div 2^(8k)) mod 256 are the two's-complement bytes of n",
                 "the indirect call g->address(&gc) in realize_global_int is an assumed contract (stores a 64-bit value, "
                 "returns a flag)",
                 "not decided: equality of list_types(), of dlopen()ed symbols and of realised ctypes between the two "
                 "FFIs (whole-module property); see DESIGN.md for the recorded FILE/_IO_FILE divergence"],
        technique="contract-based deductive verification on both sides of the encoding (pyvc + cvc, loop-body "
                  "contracts for ffiobj_init) with bit-vector round-trip lemmas")
