"""C16 -- array and pointer indexing, slicing and arithmetic follow the C model."""
import z3

from vf import driver
from vf.smt import Ob
from contracts.c import allc, index2
from specs import arith as A

PID = 'C16'
FUNCS = ['get_array_length', '_cdata_get_indexed_ptr', '_cdata_getslicearg', 'new_sized_cdata', 'new_simple_cdata',
         'cdata_slice', 'cdata_ass_slice', 'cdata_subscript', 'cdataowning_subscript', 'cdata_ass_sub',
         '_cdata_add_or_sub', 'cdata_add', 'cdata_sub']
BV = z3.BitVecVal


def lemmas():
    """consequences of the address formulas proved on the code:  addr(p, i) = p + i*z"""
    p, i, j, z = z3.BitVecs('p i j z', 64)
    small = z3.And(i > BV(-(1 << 39), 64), i < BV(1 << 39, 64), j > BV(-(1 << 39), 64), j < BV(1 << 39, 64),
                   z > 0, z < BV(1 << 20, 64))
    addr = lambda base, k: base + k * z
    wit = {'i': i, 'j': j, 'itemsize': z}
    d = addr(p, i) - p
    return [
        Ob('lemma:C16:(p+i)-p==i', [small], z3.And(z3.Or(z == 1, z3.SRem(d, z) == 0), z3.If(z == 1, d, d / z) == i),
           kind='lemma', fn='lemma', witness=wit, meta={}),
        Ob('lemma:C16:(p+i)[j]-aliases-p[i+j]', [small], addr(addr(p, i), j) == addr(p, i + j), kind='lemma',
           fn='lemma', witness=wit),
        Ob('lemma:C16:p[i]-lives-i*sizeof(T)-bytes-past-p', [small], addr(p, i) - p == i * z, kind='lemma', fn='lemma',
           witness=wit),
    ]


BATTERY = r'''
import sys
import cffi
ffi = cffi.FFI()
bad = []
def expect(what, fn, exc=None, value=None, check=None):
    try:
        r = fn()
    except Exception as e:
        if exc is None or not isinstance(e, exc):
            bad.append("%s raised %s: %s" % (what, e.__class__.__name__, e))
        return
    if exc is not None:
        bad.append("%s was accepted, expected %s" % (what, exc.__name__))
    elif check is not None and not check(r):
        bad.append("%s gave %r" % (what, r))

for T, z in (("char", 1), ("short", 2), ("int", 4), ("long long", 8), ("struct s3 { char a[3]; }", 3)):
    if T.startswith("struct"):
        ffi.cdef(T + ";"); T = "struct s3"
    for n in (0, 1, 2, 5):
        x = ffi.new("%s[]" % T, n)
        base = int(ffi.cast("intptr_t", x))
        for i in range(-2, n + 3):
            if 0 <= i < n:
                expect("%s[%d] index %d" % (T, n, i), lambda: int(ffi.cast("intptr_t", ffi.addressof(x, i))),
                       check=lambda a: a == base + i * z)
                expect("%s[%d] read %d" % (T, n, i), lambda: x[i])
            else:
                expect("%s[%d] read index %d" % (T, n, i), lambda: x[i], IndexError)
                if z != 3:
                    def w(): x[i] = 0 if T != "char" else b"\0"
                    expect("%s[%d] write index %d" % (T, n, i), w, IndexError)
        for i in range(-1, n + 2):
            for j in range(-1, n + 2):
                ok = 0 <= i <= j <= n
                if ok:
                    expect("%s[%d][%d:%d]" % (T, n, i, j), lambda: x[i:j],
                           check=lambda v: len(v) == j - i and int(ffi.cast("intptr_t", v)) == base + i * z)
                else:
                    expect("%s[%d][%d:%d]" % (T, n, i, j), lambda: x[i:j], IndexError)
        expect("%s slice with step" % T, lambda: x[0:n:1], IndexError)
        # slice assignment needs exactly j-i values
        if T in ("char", "short", "int", "long long"):
            for i in range(0, n + 1):
                for j in range(i, n + 1):
                    for k in range(0, n + 2):
                        vals = (b"a" * k) if T == "char" else [1] * k
                        def a(): x[i:j] = vals
                        if k == j - i:
                            expect("%s[%d][%d:%d] = %d values" % (T, n, i, j, k), a)
                        else:
                            expect("%s[%d][%d:%d] = %d values" % (T, n, i, j, k), a, ValueError)
                        if T == "int":
                            src = ffi.new("int[]", k)
                            def b(): x[i:j] = src
                            expect("int[%d][%d:%d] = int[%d] cdata" % (n, i, j, k), b, None if k == j - i else ValueError)
        p = ffi.cast("%s *" % T, x)
        for i in (-3, 0, 1, 7):
            expect("(p+%d)-p for %s" % (i, T), lambda: (p + i) - p, check=lambda r: r == i)
            expect("p+%d address for %s" % (i, T), lambda: int(ffi.cast("intptr_t", p + i)),
                   check=lambda a: a == base + i * z)
            for j in (-1, 0, 2):
                expect("(p+%d)+%d == p+%d" % (i, j, i + j), lambda: (p + i) + j == p + (i + j), check=lambda r: r)
        expect("offsetof %s[] 3" % T, lambda: ffi.offsetof("%s[]" % T, 3), check=lambda r: r == 3 * z)
    o = ffi.new("%s *" % T)
    expect("owning %s* index 0" % T, lambda: o[0])
    for i in (-1, 1, 2):
        expect("owning %s* index %d" % (T, i), lambda: o[i], IndexError)
if bad:
    print("FAIL %d checks violate C16; first: %s" % (len(bad), " ;; ".join(bad[:3]))); sys.exit(1)
print("ok")
'''


def concretise(ob, model):
    return BATTERY


def main(tier, seed):
    def extra(rep, tu):
        rep.extra['arith_lemmas_used'] = sorted(A.USED)
        if tier == 'thorough':
            driver.check_lean(rep, 'lemmas/Arith.lean')
        else:
            rep.assumptions.append("arithmetic lemma instances (specs/arith.py: %s) are proved in Lean "
                                   "(lemmas/Arith.lean), re-checked by the thorough tier" % ", ".join(sorted(A.USED)))
    lem = lemmas()
    lem[0].hyps.append(A.div_mul_cancel(z3.BitVec('i', 64), z3.BitVec('z', 64)))
    return driver.run_c_property(
        PID, tier, seed, allc.R, FUNCS, lemmas=lem, concretise=concretise, extra=extra,
        layout_types=('CTypeDescrObject', 'PyObject', 'PyTypeObject', 'CDataObject', 'CDataObject_own_length',
                      'PySliceObject', 'PyVarObject'),
        trusted=["scope: integer keys and slices with int/None members; the array-cdata and iterator paths of slice "
                 "assignment are not in the proved scope (only the bytes -> char view fast path and all count checks "
                 "on it); pointer cdata: dereferenced memory being mapped is the precondition (as in C)",
                 "trusted cffi function: new_array_type (only 'array type over the same item type, or NULL+error')",
                 "arithmetic lemmas (no-wrap products, division cancelling) proved in Lean, used as instances"],
        technique="contract-based deductive verification: bounds/address contracts on the real C functions, VCs from "
                  "clang's AST, z3/cvc5 with uninterpreted-product abstraction and Lean-proved arithmetic lemmas")
