"""C23 -- generated source is deterministic, idempotent and replaced atomically."""
import os
import z3

from vf import driver, cfront, pyaudit
from vf.smt import Ob
from contracts.py import gensrc

PID = 'C23'
EMISSION_PATH = ['src/cffi/recompiler.py', 'src/cffi/cparser.py', 'src/cffi/model.py', 'src/cffi/cffi_opcode.py',
                 'src/cffi/api.py', 'src/cffi/commontypes.py']

BATTERY = r'''
import sys, os, subprocess, tempfile, time
CDEF = """
typedef struct { int a; char b[3]; } s1_t; struct s2 { s1_t x; struct s2 *next; double d; };
enum e1 { A, B = 5, C }; typedef enum e1 e1_t; union u { int i; float f; };
int f1(int, char *); double f2(struct s2 *, ...); void f3(s1_t); long f4(unsigned long long, short, void *);
extern int g1; extern const char *g2; static const int K1 = 42;
#define M1 77
typedef int (*cb_t)(struct s2 *, e1_t); char *f5(cb_t, size_t, ssize_t, uint8_t *, int64_t);
"""
d = tempfile.mkdtemp()
gen = os.path.join(d, "gen.py")
open(gen, "w").write("import sys, cffi\nffi = cffi.FFI()\nffi.cdef(%r)\nffi.set_source('_m', sys.argv[2] if sys.argv[2] != '-' else None)\n"
                     "ffi.emit_c_code(sys.argv[1]) if sys.argv[2] != '-' else ffi.emit_python_code(sys.argv[1])\n" % CDEF)
bad = []
for mode, arg in (("c", "#include <stddef.h>\n"), ("py", "-")):
    outs = set()
    for seed in ("0", "1", "2", "3", "12345", "random"):
        t = os.path.join(d, "out_%s_%s" % (mode, seed))
        env = dict(os.environ, PYTHONHASHSEED=seed)
        r = subprocess.run([sys.executable, gen, t, arg], env=env, capture_output=True, text=True)
        if r.returncode != 0:
            bad.append("generation failed: " + r.stderr[-200:]); break
        outs.add(open(t).read())
    if len(outs) > 1:
        bad.append("%s output differs across PYTHONHASHSEED values (%d variants)" % (mode, len(outs)))
# idempotence and atomic replacement, observed through the real I/O calls
import cffi
from cffi import recompiler
ffi = cffi.FFI(); ffi.cdef(CDEF)
t = os.path.join(d, "target.c")
assert recompiler.make_c_source(ffi, "_m", "/*p*/", t) is True
new = open(t).read()
os.utime(t, (1000, 1000))
if recompiler.make_c_source(ffi, "_m", "/*p*/", t) is not False or os.stat(t).st_mtime != 1000:
    bad.append("regenerating identical content touched the file or reported 'updated'")
for label, stale in (("new text + appended tail", new + "/* stale tail */\n"), ("new text + one newline", new + "\n"),
                     ("new text minus last char", new[:-1]), ("one char changed", new[:-5] + "#" + new[-4:])):
    open(t, "w").write(stale)
    r = recompiler.make_c_source(ffi, "_m", "/*p*/", t)
    if r is not True or open(t).read() != new:
        bad.append("regenerating over a stale file (%s): updated=%r, target %s the new content"
                   % (label, r, "holds" if open(t).read() == new else "does NOT hold"))
open(t, "w").write("OLD CONTENT")
seen = []
real_open, real_rename = open, os.rename
def probe(tag):
    try:
        seen.append((tag, real_open(t).read()))
    except OSError:
        seen.append((tag, None))
class F:
    def __init__(self, f): self.f = f
    def write(self, x):
        r = self.f.write(x); self.f.flush(); probe("write"); return r
    def read(self, *a): return self.f.read(*a)
    def __getattr__(self, n): return getattr(self.f, n)
    def __iter__(self): return iter(self.f)
    def __enter__(self): return self
    def __exit__(self, *a): self.f.close(); probe("close")
def my_open(p, mode="r", *a, **k):
    f = real_open(p, mode, *a, **k); probe("open " + mode); return F(f)
def my_rename(a, b):
    probe("before rename"); real_rename(a, b); probe("after rename")
recompiler.open = my_open; recompiler.os.rename = my_rename
try:
    if recompiler.make_c_source(ffi, "_m", "/*p*/", t) is not True:
        bad.append("changed content reported as 'not updated'")
finally:
    del recompiler.open; recompiler.os.rename = real_rename
for tag, content in seen:
    if content not in ("OLD CONTENT", new):
        bad.append("at crash point %r the target held neither the old nor the new content (%r...)" % (tag, (content or "")[:30]))
if open(t).read() != new:
    bad.append("final content is not the new content")
if bad:
    print("FAIL " + " ;; ".join(bad[:3])); sys.exit(1)
print("ok")
'''


def concretise(ob, model):
    return BATTERY


def determinism_obligations(rep, tu):
    obs = []
    audited = []
    for rel in EMISSION_PATH:
        path = os.path.join(cfront.REPO, rel)
        try:
            a = pyaudit.audit(path)
        except (OSError, SyntaxError) as e:
            rep.errors.append("audit of %s: %r" % (rel, e))
            continue
        audited.append({'file': rel, 'sets': a['sets'], 'set_returning_functions': a['set_returning_functions'],
                        'order_exposing_sites': len(a['sites']), 'hash_or_id_calls': len(a['hash_calls'])})
        for s_ in a['sites']:
            obs.append(Ob("%s:L%d:determinism[%s over the set %s is order-free]" % (s_['file'], s_['line'], s_['kind'],
                                                                                 s_['set']), [],
                          z3.BoolVal(bool(s_['discharged'])), kind='determinism', fn=s_['set'], line=s_['line']))
        for h in a['hash_calls']:
            obs.append(Ob("%s:L%d:determinism[%s() in %s does not reach emitted text]" % (h['file'], h['line'], h['call'],
                                                                                       h['in']), [],
                          z3.BoolVal(bool(h['discharged'])), kind='determinism', fn=h['in'], line=h['line']))
        obs.append(Ob("%s:determinism[audit: %d set-typed names, every order-exposing use discharged]"
                      % (os.path.basename(rel), len(a['sets'])), [], z3.BoolVal(all(s_['discharged'] for s_ in a['sites'])),
                      kind='determinism', fn='audit'))
    rep.extra['set_iteration_audit'] = audited
    return obs, []


def main(tier, seed):
    return driver.run_property(
        PID, tier, seed, py_items=gensrc.items(), more=determinism_obligations, concretise=concretise,
        trusted=["ghost file system: one externally visible state per I/O call (= crash point); the I/O calls succeed "
                 "except open(target, 'r') of a missing file; os.rename within a directory replaces atomically and does "
                 "not fail (the property quantifies over crash points, not faults -- the unlink+rename fallback after a "
                 "failed rename is not atomic and is outside the claim); a text file's write becomes visible at the "
                 "latest at close",
                 "determinism is decided by a set-iteration audit (vf/pyaudit.py): A-PY makes set iteration order "
                 "arbitrary; every order-exposing use of a set-typed expression in the files on the emission path "
                 "must be under sorted() or on a provably singleton set; dict iteration is insertion-ordered; the "
                 "type inference of 'which expressions are sets' is syntactic (set()/literals/assignments/returns)",
                 "not decided: that the emitted text is a function of the declarations only in other respects (e.g. "
                 "dependence on global state such as model.global_cache or the cdef version counter)"],
        technique="contract-based deductive verification of _make_c_or_py_source over a ghost file system (path-wise "
                  "VCs, z3 strings) + set-iteration audit as determinism obligations")
