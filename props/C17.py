"""C17 -- cdata equality, ordering and hashing are mutually consistent."""
import z3

from vf import driver
from vf.smt import Ob
from contracts.c import allc, compare

PID = 'C17'
FUNCS = ['convert_to_object', 'cdata_richcompare', 'cdata_hash']


def lemmas():
    a, b = z3.BitVecs('va vb', 80)
    p, q = z3.BitVecs('pa pb', 64)
    return [Ob('lemma:C17:equal-integer-values-hash-equal', [a == b], compare.hash_of_int(a) == compare.hash_of_int(b),
               kind='lemma', fn='lemma', witness={'va': a, 'vb': b}),
            Ob('lemma:C17:equal-addresses-hash-equal', [p == q], compare.hash_of_ptr(p) == compare.hash_of_ptr(q),
               kind='lemma', fn='lemma', witness={'pa': p, 'pb': q})]


BATTERY = r'''
import sys, itertools
import cffi
ffi = cffi.FFI()
bad = []
vals = [-2**63, -2**31, -1, 0, 1, 127, 128, 255, 2**31 - 1, 2**31, 2**63 - 1, 2**63, 2**64 - 1]
types = {"signed char": (-128, 127), "unsigned char": (0, 255), "short": (-2**15, 2**15 - 1), "int": (-2**31, 2**31 - 1),
         "unsigned int": (0, 2**32 - 1), "long long": (-2**63, 2**63 - 1), "unsigned long long": (0, 2**64 - 1)}
cds = [(ffi.cast(t, v), v) for t, (lo, hi) in types.items() for v in vals if lo <= v <= hi]
import operator
OPS = [operator.lt, operator.le, operator.eq, operator.ne, operator.gt, operator.ge]
for (a, va), (b, vb) in itertools.product(cds, cds[::3]):
    for op in OPS:
        if op(a, b) != op(va, vb):
            bad.append("%r %s %r is %r, values %d %d" % (a, op.__name__, b, op(a, b), va, vb))
    if a == b and hash(a) != hash(b):
        bad.append("%r == %r but hashes differ" % (a, b))
for (a, va) in cds:
    for v in vals:
        for op in OPS:
            if op(a, v) != op(va, v):
                bad.append("%r %s %d is %r" % (a, op.__name__, v, op(a, v)))
        if a == v and hash(a) != hash(v):
            bad.append("%r == %d but hash(a) != hash(int)" % (a, v))
buf = ffi.new("char[16]")
ptrs = [ffi.cast("char *", buf), ffi.cast("int *", buf), buf, ffi.cast("void *", buf) , ffi.cast("char *", buf) + 3,
        ffi.cast("short *", ffi.cast("char *", buf) + 3), ffi.NULL]
for a, b in itertools.product(ptrs, ptrs):
    ia, ib = int(ffi.cast("uintptr_t", a)), int(ffi.cast("uintptr_t", b))
    for op in OPS:
        if op(a, b) != op(ia, ib):
            bad.append("%r %s %r is %r, addresses %#x %#x" % (a, op.__name__, b, op(a, b), ia, ib))
    if a == b and hash(a) != hash(b):
        bad.append("%r == %r but hashes differ" % (a, b))
fvals = [0.0, -0.0, 1.5, -1.5, float('inf'), float('-inf'), float('nan'), 1e-320, 3.0e38, 16777217.0]
fcds = [(ffi.cast(t, v), float(ffi.cast(t, v))) for t in ("float", "double") for v in fvals]
for (a, va), (b, vb) in itertools.product(fcds, fcds):
    for op in OPS:
        if op(a, b) != op(va, vb):
            bad.append("%r %s %r is %r, the floats %r %r give %r" % (a, op.__name__, b, op(a, b), va, vb, op(va, vb)))
if bad:
    print("FAIL %d checks violate C17; first: %s" % (len(bad), " ;; ".join(bad[:3]))); sys.exit(1)
print("ok")
'''


def concretise(ob, model):
    return BATTERY


def main(tier, seed):
    return driver.run_property(
        PID, tier, seed, c_part=(allc.R, FUNCS), lemmas=lemmas, concretise=concretise, quick_budget=300,
        layout_types=('CTypeDescrObject', 'PyObject', 'PyTypeObject', 'CDataObject'),
        trusted=["T-API: PyObject_RichCompare on two int objects compares their values; PyObject_Hash of an int object "
                 "is a function of its value; _Py_HashPointer is a function of the address -- so 'a == b implies "
                 "hash(a) == hash(b)' reduces to congruence (two lemmas)",
                 "scope: pointer-like cdata (pointer, array, struct, function) against each other and against anything "
                 "else; integer cdata against integer cdata / Python ints; float, char, complex and _Bool cdata "
                 "(converted through the same convert_to_object dispatch) are outside the proved scope"],
        technique="contract-based deductive verification: dispatch contracts on cdata_richcompare / cdata_hash with "
                  "the conversion contract of convert_to_object; z3/cvc5")
