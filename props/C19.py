"""C19 -- ffi.buffer / memmove match a byte-array model (buffer objects of minibuffer.h, b_buffer_new, b_memmove)."""
from vf import driver
from contracts.c import allc

PID = 'C19'
FUNCS = ['b_buffer_new', 'minibuffer_new', 'mb_length', 'mb_item', 'mb_slice', 'mb_ass_item', 'mb_ass_slice', 'b_memmove']

BATTERY = r'''
import sys, random, array
import cffi
ffi = cffi.FFI()
rnd = random.Random(19)
bad = []
def mk(kind, n):
    data = bytes(rnd.randrange(256) for _ in range(n + 8))
    if kind == 'new':
        p = ffi.new("char[]", data); return p, p
    if kind == 'cast':
        keep = ffi.new("int[]", (n + 8 + 3) // 4 + 1); ffi.memmove(keep, data, n + 8); return ffi.cast("int *", keep), keep
    ba = bytearray(data + b"\0" * (-(n + 8) % 2)); return ffi.from_buffer("short[]", ba), ba
for kind in ('new', 'cast', 'frombuf'):
    for n in range(0, 9):
        p, keep = mk(kind, n)
        whole = bytes(ffi.buffer(ffi.cast("char *", p), n + 8))
        b = ffi.buffer(p, n)
        model = bytearray(whole[:n])
        if len(b) != n:
            bad.append("%s: len(ffi.buffer(p, %d)) == %d" % (kind, n, len(b))); continue
        for step in range(60):
            op = rnd.randrange(5)
            i, j = rnd.randrange(-n - 2, n + 3), rnd.randrange(-n - 2, n + 3)
            try:
                if op == 0:
                    got, want = b[i:j], bytes(model[i:j])
                elif op == 1:
                    try: want = bytes(model[i:i+1]) if -n <= i < n else IndexError
                    except IndexError: want = IndexError
                    try: got = b[i]
                    except IndexError: got = IndexError
                elif op == 2:
                    v = bytes([rnd.randrange(256)])
                    try: model[i] = v[0]; want = None
                    except IndexError: want = IndexError
                    try: b[i] = v; got = None
                    except IndexError: got = IndexError
                elif op == 3:
                    ln = len(model[i:j]); v = bytes(rnd.randrange(256) for _ in range(ln))
                    model[i:j] = v; b[i:j] = v; got = want = None
                else:
                    ln = len(model[i:j]) + 1; v = bytes(ln)
                    try: b[i:j] = v; got = "accepted"
                    except ValueError: got = None
                    want = None
                if got != want:
                    bad.append("%s n=%d: op %d [%d:%d] gives %r, a bytearray gives %r" % (kind, n, op, i, j, got, want)); break
                now = bytes(ffi.buffer(ffi.cast("char *", p), n + 8))
                if now[:n] != bytes(model) or now[n:] != whole[n:]:
                    bad.append("%s n=%d: after op %d [%d:%d] memory is %r, model %r + untouched tail %r" % (kind, n, op, i, j, now, bytes(model), whole[n:])); break
            except Exception as e:
                bad.append("%s n=%d: op %d raised %s: %s" % (kind, n, op, e.__class__.__name__, e)); break
# memmove: copy through an intermediate buffer for any overlap
for trial in range(300):
    n = rnd.randrange(1, 40)
    data = bytes(rnd.randrange(256) for _ in range(n))
    a, b_, k = rnd.randrange(n), rnd.randrange(n), 0
    k = rnd.randrange(0, n - max(a, b_) + 1)
    for kind in ('cdata', 'bytearray', 'mixed'):
        if kind == 'cdata':
            p = ffi.new("char[]", data); ffi.memmove(p + a, p + b_, k); got = bytes(ffi.buffer(p, n))
        elif kind == 'bytearray':
            ba = bytearray(data); mv = memoryview(ba); ffi.memmove(mv[a:], mv[b_:], k); got = bytes(ba)
        else:
            ba = bytearray(data); p = ffi.from_buffer(ba); ffi.memmove(p + a, memoryview(ba)[b_:], k); got = bytes(ba)
        want = bytearray(data); tmp = bytes(want[b_:b_ + k]); want[a:a + k] = tmp
        if got != bytes(want):
            bad.append("memmove(%s, dst+%d, src+%d, %d) over %r gives %r, expected %r" % (kind, a, b_, k, data, got, bytes(want)))
if bad:
    print("FAIL %d buffer operations differ from the bytearray model; first: %s" % (len(bad), " ;; ".join(bad[:3]))); sys.exit(1)
print("ok")
'''


def concretise(ob, model):
    return BATTERY


def main(tier, seed):
    return driver.run_property(
        PID, tier, seed, c_part=(allc.R, FUNCS), concretise=concretise,
        layout_types=('PyObject', 'PyTypeObject', 'CTypeDescrObject', 'CDataObject', 'MiniBufferObj', 'Py_buffer'),
        trusted=["ghost model of Python bytes objects (blen, bbyte) and of the buffer protocol (src_buf, src_len): "
                 "PyBytes_FromStringAndSize and _fetch_as_buffer / _my_PyObject_GetContiguousBuffer are assumed contracts",
                 "PyArg_ParseTupleAndKeywords: assumed contract keyed by the format string (O! = the type or a subtype); "
                 "the parsed cdata satisfies the cdata type invariants",
                 "slice bounds reaching mb_slice / mb_ass_slice are those PySlice_GetIndicesEx computes for the length "
                 "mb_size (CPython); the contracts state the result for ANY bounds as a bytearray of that length would",
                 "scope of mb_ass_slice: the right operand is not a cdata (for a cdata _fetch_as_buffer leaves "
                 "view->len unset and the length test reads an uninitialised value: recorded divergence) and does not "
                 "overlap the destination (memcpy)",
                 "not decided: mb_subscript / mb_ass_subscript (index normalisation via PyNumber_AsSsize_t, "
                 "PySlice_GetIndicesEx), mb_richcompare, direct_from_buffer (from_buffer item counts)"],
        technique="contract-based deductive verification of the buffer object's operations against a byte-array "
                  "model (frame conditions: exactly the addressed bytes change), cvc")
