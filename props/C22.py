"""C22 -- errno is passed to and from C calls and is thread-local (sequential part + declaration check)."""
import z3

from vf import driver
from vf.smt import Ob
from contracts.c import allc, errno_

PID = 'C22'
FUNCS = ['save_errno_only', 'restore_errno_only', 'b_get_errno', 'b_set_errno']

BATTERY = r'''
import sys, threading
import cffi
ffi = cffi.FFI()
ffi.cdef("int *__errno_location(void); long strtol(const char *, char **, int);")
lib = ffi.dlopen(None)
bad = []
for v in (0, 1, 34, 2**31 - 1, -1, -2**31):
    ffi.errno = v
    if ffi.errno != v:
        bad.append("ffi.errno = %d reads back %d" % (v, ffi.errno))
for v in (2**31, -2**31 - 1, 2**64):
    ffi.errno = 5
    try:
        ffi.errno = v; bad.append("ffi.errno = %d accepted" % v)
    except OverflowError:
        if ffi.errno != 5: bad.append("rejected errno assignment changed errno to %d" % ffi.errno)
ffi.errno = 0
lib.strtol(b"99999999999999999999999999", ffi.NULL, 10)
if ffi.errno != 34: bad.append("errno after overflowing strtol is %d, expected 34 (ERANGE)" % ffi.errno)
seen = {}
def worker(k):
    ffi.errno = 100 + k
    for _ in range(2000):
        if ffi.errno != 100 + k: seen[k] = ffi.errno; return
ts = [threading.Thread(target=worker, args=(k,)) for k in range(4)]
[t.start() for t in ts]; [t.join() for t in ts]
if seen: bad.append("threads saw each other's errno: %r" % seen)
if bad:
    print("FAIL " + " ;; ".join(bad[:4])); sys.exit(1)
print("ok")
'''


def concretise(ob, model):
    return BATTERY


def main(tier, seed):
    def more(rep, tu):
        g = tu.globals.get('cffi_saved_errno')
        ok = g is not None and g.get('tls') in ('static', 'dynamic') and g.get('storageClass') == 'static'
        o = Ob('misc_thread_common.h:cffi_saved_errno:declaration[thread-local storage in the real build]', [],
               z3.BoolVal(bool(ok)), kind='declaration', fn='cffi_saved_errno',
               witness={})
        return [o], []
    return driver.run_property(
        PID, tier, seed, c_part=(allc.R, FUNCS), more=more, concretise=concretise,
        layout_types=('PyObject', 'PyTypeObject'),
        trusted=["errno is the int at __errno_location() (glibc); the saved errno is the C global cffi_saved_errno",
                 "thread isolation is reduced to a declaration check: clang reports cffi_saved_errno with thread-local "
                 "storage in the real build (USE__THREAD); isolation then follows from the C11 semantics of "
                 "_Thread_local, which is assumed -- no interleaving is explored",
                 "not decided: the restore/call/save brackets inside cdata_call, general_invoke_callback, "
                 "cffi_call_python, fetch_global_var_addr and in the C text emitted by the recompiler"],
        technique="contract-based deductive verification of the four errno functions (ghost saved-errno state), plus "
                  "an AST declaration check for thread-local storage")
