"""C22 -- errno is passed to and from C calls and is thread-local (sequential part + declaration check)."""
import z3

from vf import driver
from vf.smt import Ob
from contracts.c import allc, errno_, errno2

PID = 'C22'
FUNCS = ['save_errno_only', 'restore_errno_only', 'b_get_errno', 'b_set_errno'] + errno2.C22_MORE

BATTERY = r'''
import sys, threading
import cffi
ffi = cffi.FFI()
ffi.cdef("int *__errno_location(void); long strtol(const char *, char **, int);")
lib = ffi.dlopen(None)
bad = []
for v in (0, 1, 34, 2**31 - 1, -1, -2**31):
    ffi.errno = v
    if ffi.errno != v:
        bad.append("ffi.errno = %d reads back %d" % (v, ffi.errno))
for v in (2**31, -2**31 - 1, 2**64):
    ffi.errno = 5
    try:
        ffi.errno = v; bad.append("ffi.errno = %d accepted" % v)
    except OverflowError:
        if ffi.errno != 5: bad.append("rejected errno assignment changed errno to %d" % ffi.errno)
ffi.errno = 0
lib.strtol(b"99999999999999999999999999", ffi.NULL, 10)
if ffi.errno != 34: bad.append("errno after overflowing strtol is %d, expected 34 (ERANGE)" % ffi.errno)
seen = {}
def worker(k):
    ffi.errno = 100 + k
    for _ in range(2000):
        if ffi.errno != 100 + k: seen[k] = ffi.errno; return
ts = [threading.Thread(target=worker, args=(k,)) for k in range(4)]
[t.start() for t in ts]; [t.join() for t in ts]
if seen: bad.append("threads saw each other's errno: %r" % seen)
# API mode: a compiled module with a global variable (reached through its generated address function), functions that
# read / leave errno, and a callback
import os, shutil, tempfile, importlib.util
d = tempfile.mkdtemp(prefix="c22-")
try:
    fb = cffi.FFI()
    fb.cdef("extern int counter; extern long table[4]; int see_errno(void); void leave_errno(int); int call_it(int (*f)(int), int);")
    fb.set_source("_c22_mod", """
        #include <errno.h>
        int counter = 3; long table[4] = {1, 2, 3, 4};
        int see_errno(void) { return errno; }
        void leave_errno(int v) { errno = v; }
        int call_it(int (*f)(int), int v) { errno = v; { int r = f(v); return r * 1000 + errno; } }
    """)
    path = fb.compile(tmpdir=d, verbose=False)
    spec = importlib.util.spec_from_file_location("_c22_mod", path)
    mod = importlib.util.module_from_spec(spec); spec.loader.exec_module(mod)
    f2, l2 = mod.ffi, mod.lib
    def dirty():
        try: os.stat("/nonexistent-c22")       # leaves ENOENT in the thread's C errno
        except OSError: pass
    f2.errno = 12345; dirty()
    if l2.see_errno() != 12345: bad.append("API mode: ffi.errno = 12345 is not what the C function sees")
    f2.errno = 4321; dirty(); _ = l2.counter
    if f2.errno != 4321: bad.append("API mode: reading a global changed ffi.errno to %d" % f2.errno)
    f2.errno = 777; dirty(); _ = l2.counter
    if l2.see_errno() != 777: bad.append("API mode: after reading a global the C function sees another errno")
    l2.leave_errno(31000); dirty(); l2.counter = 5
    if f2.errno != 31000: bad.append("API mode: errno left by C is %d after writing a global, expected 31000" % f2.errno)
    l2.leave_errno(-9); dirty(); _ = l2.table[2]
    if f2.errno != -9: bad.append("API mode: errno left by C is %d after indexing a global array" % f2.errno)
    seen = []
    @f2.callback("int(int)")
    def cb(v):
        seen.append(f2.errno); f2.errno = v + 1; return 2
    r = l2.call_it(cb, 40)
    if seen != [40]: bad.append("callback: ffi.errno inside is %r, the C caller left 40" % seen)
    if r != 2 * 1000 + 41: bad.append("callback: the C caller sees errno %d after the callback assigned 41" % (r - 2000))
finally:
    shutil.rmtree(d, ignore_errors=True)
if bad:
    print("FAIL " + " ;; ".join(bad[:4])); sys.exit(1)
print("ok")
'''


def concretise(ob, model):
    return BATTERY


def main(tier, seed):
    def more(rep, tu):
        g = tu.globals.get('cffi_saved_errno')
        ok = g is not None and g.get('tls') in ('static', 'dynamic') and g.get('storageClass') == 'static'
        o = Ob('misc_thread_common.h:cffi_saved_errno:declaration[thread-local storage in the real build]', [],
               z3.BoolVal(bool(ok)), kind='declaration', fn='cffi_saved_errno',
               witness={})
        return [o] + list(errno2.structural_obligations(tu)) + [errno2.recompiler_obligation()] + errno2.export_obligations(tu), []
    return driver.run_property(
        PID, tier, seed, c_part=(errno2.R, FUNCS), more=more, concretise=concretise,
        layout_types=('PyObject', 'PyTypeObject', 'GlobSupportObject', 'struct _cffi_externpy_s'),
        trusted=["errno is the int at __errno_location() (glibc); the saved errno is the C global cffi_saved_errno",
                 "thread isolation is reduced to a declaration check: clang reports cffi_saved_errno with thread-local "
                 "storage in the real build (USE__THREAD); isolation then follows from the C11 semantics of "
                 "_Thread_local, which is assumed -- no interleaving is explored",
                 "the brackets: fetch_global_var_addr, invoke_callback and cffi_call_python are under contract over a trace "
                 "of 'C code runs' / 'Python code runs' events (contracts/c/errno2.py); cdata_call's bracket around "
                 "ffi_call, the text the recompiler emits around a direct call, and the export-table entries behind "
                 "_cffi_restore_errno/_cffi_save_errno are STRUCTURAL obligations on the clang / Python AST (adjacency "
                 "of the calls), combined with the contracts of save_errno_only / restore_errno_only",
                 "the GIL functions preserve the calling thread's errno (assumed; cffi relies on it equally: "
                 "save_errno() in invoke_callback runs before gil_ensure(), restore_errno() after gil_release())",
                 "_update_cache_to_call_python / _current_interp_key: assumed not to run user code (saved errno untouched)"],
        technique="contract-based deductive verification of the errno functions and of the three brackets under contract "
                  "(trace of foreign-code events), structural AST obligations for the two brackets that are not, plus "
                  "an AST declaration check for thread-local storage")
