"""C18 -- ffi.unpack(p, n) yields what element-wise reading [p[i] for i in range(n)] yields, whichever fast path."""
from vf import driver
from contracts.c import allc

PID = 'C18'
FUNCS = ['b_unpack', 'b_unpack#loop', 'convert_to_object']

BATTERY = r'''
import sys, random, struct, math
import cffi
ffi = cffi.FFI()
ffi.cdef("struct pt { short a; char b; }; typedef int (*fn_t)(int);")
rnd = random.Random(18)
bad = []
def same(a, b):
    if type(a) is not type(b): return False
    if isinstance(a, float): return struct.pack('d', a) == struct.pack('d', b) or (math.isnan(a) and math.isnan(b))
    if isinstance(a, complex): return same(a.real, b.real) and same(a.imag, b.imag)
    if isinstance(a, ffi.CData):
        if ffi.typeof(a) is not ffi.typeof(b): return False
        k = ffi.typeof(a).kind
        if k in ('pointer', 'function'): return a == b
        if k == 'primitive':      # long double: the 10 value bytes of the x87 format (6 padding bytes follow)
            return bytes(ffi.buffer(ffi.new(ffi.typeof(a).cname + '*', a)))[:10] == bytes(ffi.buffer(ffi.new(ffi.typeof(b).cname + '*', b)))[:10]
        if k in ('struct', 'union'): a, b = ffi.addressof(a), ffi.addressof(b)
        return bytes(ffi.buffer(a)) == bytes(ffi.buffer(b))
    return a == b
TYPES = ['signed char', 'unsigned char', 'short', 'unsigned short', 'int', 'unsigned int', 'long', 'unsigned long',
         'long long', 'unsigned long long', 'int8_t', 'uint16_t', 'int32_t', 'uint64_t', 'size_t', 'ssize_t',
         '_Bool', 'float', 'double', 'long double', 'float _Complex', 'double _Complex', 'void *', 'int *', 'fn_t',
         'struct pt', 'struct pt *', 'int[3]']
for tp in TYPES:
    size = ffi.sizeof(tp)
    for n in (0, 1, 2, 5, 17):
        for off in (0, 1, 2, 4, 8, 3):
            raw = ffi.new("char[]", n * size + 64)
            base = ffi.cast("uintptr_t", raw)
            start = int(base) + ((-int(base)) % 16) + off          # aligned to 16, then shifted by `off`
            blob = bytes(rnd.randrange(256) for _ in range(n * size))
            if tp == '_Bool': blob = bytes(rnd.randrange(2) for _ in range(n))
            ffi.memmove(ffi.cast("char *", start), blob, len(blob))
            p = ffi.cast(tp + ' *' if not tp.endswith(']') else 'int(*)[3]', start)
            try: got = ffi.unpack(p, n)
            except Exception as e: got = e
            try: want = [p[i] for i in range(n)]
            except Exception as e: want = e
            if isinstance(got, Exception) or isinstance(want, Exception):
                if type(got) is not type(want):
                    bad.append("%s, n=%d, offset %d: unpack -> %r but element-wise -> %r" % (tp, n, off, got, want))
                continue
            if len(got) != len(want) or not all(same(a, b) for a, b in zip(got, want)):
                k = next((i for i, (a, b) in enumerate(zip(got, want)) if not same(a, b)), None)
                bad.append("%s, n=%d, start offset %d from 16-byte alignment: item %r: unpack gives %r, p[i] gives %r"
                           % (tp, n, off, k, got[k] if k is not None else len(got), want[k] if k is not None else len(want)))
# _Bool bytes other than 0/1: both ways raise ValueError
raw = ffi.new("char[]", b"\x01\x00\x02")
pb = ffi.cast("_Bool *", raw)
for n in (3,):
    try: ffi.unpack(pb, n); bad.append("unpack of a _Bool byte 2 did not raise")
    except ValueError: pass
    try: [pb[i] for i in range(n)]; bad.append("p[i] of a _Bool byte 2 did not raise")
    except ValueError: pass
# characters: bytes / str of the same items
for tp, mk in (('char', lambda xs: b''.join(xs)), ('wchar_t', lambda xs: u''.join(xs)),
               ('char32_t', lambda xs: u''.join(xs)), ('char16_t', lambda xs: u''.join(xs))):
    hi = 256 if tp == 'char' else 0xD7FF
    vals = [rnd.randrange(1, hi) for _ in range(9)]
    arr = ffi.new(tp + "[]", [bytes([v]) if tp == 'char' else chr(v) for v in vals])
    if ffi.unpack(arr, 9) != mk([arr[i] for i in range(9)]):
        bad.append("%s[9]: unpack gives %r, items are %r" % (tp, ffi.unpack(arr, 9), [arr[i] for i in range(9)]))
if bad:
    print("FAIL %d unpack results differ from element-wise reading; first: %s" % (len(bad), " ;; ".join(bad[:3]))); sys.exit(1)
print("ok")
'''


def concretise(ob, model):
    return BATTERY


def main(tier, seed):
    def more(rep, tu):
        if tu.parse_type('long double').size != 16 or tu.parse_type('long').size != 8:
            raise RuntimeError("platform assumption of the C18 contracts (LP64, 16-byte long double) does not hold")
        return [], []
    return driver.run_property(
        PID, tier, seed, c_part=(allc.R, FUNCS), more=more, concretise=concretise,
        layout_types=('PyObject', 'PyTypeObject', 'CTypeDescrObject', 'CDataObject', 'PyListObject'),
        trusted=["A-PYINT, A-ALLOC; PyFloat_FromDouble: new float object whose value is the argument (ghost float_val)",
                 "PyArg_ParseTupleAndKeywords: assumed contract keyed by the format string; the parsed cdata satisfies "
                 "the cdata / ctype type invariants (ctype_wf, incl. float sizes 4/8 and 16-byte long double)",
                 "the loop of b_unpack is summarised: its entry state is proved to select a valid fast path; one "
                 "arbitrary iteration is verified by the loop-body contract b_unpack#loop under that entry fact; "
                 "casenum/ctitem/itemsize are not assigned in the loop (syntactic check by the loop harness: they are "
                 "arguments of the body contract, whose post fixes src and i only); termination is not verified",
                 "readable memory for the n items is the caller's promise (pre of the body contract); alignment of "
                 "the direct reads is not an obligation",
                 "items of char, complex, struct, array and long double type go through convert_to_object itself on "
                 "both sides (proved: no fast path is selected for them); the char/wchar_t string results "
                 "(PyBytes_FromStringAndSize, _my_PyUnicode_FromChar16/32) are outside the contracts: replay battery only"],
        technique="contract-based deductive verification of b_unpack (fast-path selection as a loop-entry invariant; "
                  "one loop iteration under a loop-body contract against convert_to_object's contract), clang AST -> "
                  "z3/cvc5")
