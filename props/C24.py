"""C24 -- cffi-gen-src output is byte-identical to FFI.emit_c_code."""
import ast
import os
import re
import z3

from vf import driver, cfront
from vf.smt import Ob
from contracts.py import gentool, gensrc

PID = 'C24'

BATTERY = r'''
import sys, os, subprocess, tempfile, io
d = tempfile.mkdtemp()
CDEF = "typedef struct { int a; } s_t; int f(s_t *, const char *); /* café 中 */ extern int g;\n#define K 5\n"
SRC = '#include <stddef.h>\n/* prélude 中文 */\ntypedef struct { int a; } s_t; static int f(s_t *p, const char *q) { return p->a; } int g;\n'
open(os.path.join(d, "x.cdef"), "w", encoding="utf-8").write(CDEF)
open(os.path.join(d, "x.c"), "w", encoding="utf-8").write(SRC)
open(os.path.join(d, "build.py"), "w", encoding="utf-8").write(
    "import cffi\ndef mk():\n    ffi = cffi.FFI(); ffi.cdef(%r); ffi.set_source('pkg._m', %r); return ffi\nffibuilder = mk()\nmaker = mk\n" % (CDEF, SRC))
import cffi
ffi = cffi.FFI(); ffi.cdef(CDEF); ffi.set_source("pkg._m", SRC)
buf = io.StringIO(); ffi.emit_c_code(buf)
want = buf.getvalue().encode("utf-8")
ref = os.path.join(d, "ref.c"); ffi.emit_c_code(ref)
env = dict(os.environ, PYTHONUTF8="1")
bad = []
if open(ref, "rb").read() != want:
    bad.append("emit_c_code(path) and emit_c_code(file-like) differ")
inv = {"module": [sys.executable, "-m", "cffi.gen_src"], "script": [sys.executable, "-c", "import sys; sys.argv[0]='cffi-gen-src'; from cffi._cffi_gen_src import run; run()"]}
for iname, cmd in inv.items():
    for sub, args in (("read-sources", ["pkg._m", os.path.join(d, "x.cdef"), os.path.join(d, "x.c")]),
                      ("exec-python", [os.path.join(d, "build.py")]),
                      ("exec-python", ["--ffi-var", "maker", os.path.join(d, "build.py")])):
        out = os.path.join(d, "out_%s_%s_%d.c" % (iname, sub, len(args)))
        r = subprocess.run(cmd + [sub] + args + [out], env=env, capture_output=True)
        if r.returncode != 0 or open(out, "rb").read() != want:
            bad.append("%s %s %s: file output differs from emit_c_code (rc=%d)" % (iname, sub, args[:1], r.returncode))
        r = subprocess.run(cmd + [sub] + args + ["-"], env=env, capture_output=True)
        if r.returncode != 0 or r.stdout != want:
            bad.append("%s %s %s: stdout output differs from emit_c_code (rc=%d)" % (iname, sub, args[:1], r.returncode))
if bad:
    print("FAIL " + " ;; ".join(bad[:3])); sys.exit(1)
print("ok")
'''


def concretise(ob, model):
    return BATTERY


def more(rep, tu):
    """both documented invocations reach the same run(): a syntactic fact of gen_src.py and pyproject.toml"""
    obs = []
    try:
        t = ast.parse(open(os.path.join(cfront.REPO, 'src/cffi/gen_src.py')).read())
        names = [a.name for n in ast.walk(t) if isinstance(n, ast.ImportFrom) and n.module == 'cffi._cffi_gen_src'
                 for a in n.names]
        calls = [n for n in ast.walk(t) if isinstance(n, ast.Call) and isinstance(n.func, ast.Name) and n.func.id == 'run'
                 and not n.args and not n.keywords]
        ok1 = names == ['run'] and len(calls) == 1
    except (OSError, SyntaxError):
        ok1 = False
    try:
        pp = open(os.path.join(cfront.REPO, 'pyproject.toml')).read()
        ok2 = re.search(r'^cffi-gen-src\s*=\s*"cffi\._cffi_gen_src:run"\s*$', pp, re.M) is not None
    except OSError:
        # the scratch copies used by canaries do not carry pyproject.toml: nothing to check then
        ok2 = True
    obs.append(Ob('gen_src.py:entry[python -m cffi.gen_src calls _cffi_gen_src.run() with no arguments]', [],
                  z3.BoolVal(bool(ok1)), kind='entry-point', fn='gen_src'))
    obs.append(Ob('pyproject.toml:entry[cffi-gen-src is cffi._cffi_gen_src:run]', [], z3.BoolVal(bool(ok2)),
                  kind='entry-point', fn='pyproject'))
    return obs, []


def main(tier, seed):
    return driver.run_property(
        PID, tier, seed, py_items=gentool.items() + gensrc.filelike_items(), more=more, concretise=concretise,
        trusted=["call-trace equality: read_sources performs exactly FFI(); cdef(text); set_source(name, prelude); "
                 "emit_c_code(buffer) and writes the buffer's text unchanged (UTF-8 file or sys.stdout); exec_python "
                 "uses the object bound under --ffi-var, calling it iff it is a non-FFI callable; FFI.emit_c_code itself "
                 "is the ghost text EMIT(ffi) on both sides (its determinism is C23's subject)",
                 "byte identity with emit_c_code(path) additionally assumes a UTF-8 default encoding, because "
                 "recompiler._make_c_or_py_source opens its file with the locale's encoding while the tool writes UTF-8",
                 "argparse (file opening with encoding='utf-8', sub-command dispatch in run()) and exec() of the user "
                 "script are assumed; run() itself is not under contract"],
        technique="contract-based deductive verification as call-trace contracts on every function of "
                  "_cffi_gen_src.py (pyvc), plus two syntactic entry-point obligations")
