"""C20 -- ffi.new zero-fills and initialises exactly like assignment; flexible-array structs are sized for the initializer."""
import os

from vf import driver
from contracts.c import newp
from specs import arith as A

PID = 'C20'
FUNCS = newp.C20_FUNCS + ['b_complete_struct_or_union_lock_held#var-array-flag']
BATTERY = open(os.path.join(driver.VERIF, 'bounded', 'newp_battery.py')).read()


def concretise(ob, model):
    return BATTERY


def extra(rep, tu):
    if rep.tier == 'thorough':
        driver.check_lean(rep, 'lemmas/Arith.lean')
    rep.extra['lean_lemmas_used'] = sorted(A.USED)


def main(tier, seed):
    return driver.run_property(
        PID, tier, seed, c_part=(newp.R, FUNCS), concretise=concretise, extra=extra,
        layout_types=('PyObject', 'PyTypeObject', 'CTypeDescrObject', 'CFieldObject', 'CDataObject',
                      'CDataObject_own_length', 'CDataObject_own_structptr', 'cffi_allocator_t', 'PyListObject'),
        trusted=["convert_from_object is used through a RECORDING contract (trace abstraction): what it writes is not "
                 "specified here (C03/C04/C15 are about that); it does not change ctype/cdata headers",
                 "A-ALLOC: malloc/calloc of less than 2^46 bytes succeed; calloc memory is zero",
                 "A-STACK: a callee writes a caller's local only through an address it is handed",
                 "ghost predicate initializers_in_scope(struct type, initializer): every (field, value) pair the loops of "
                 "convert_struct_from_object visit satisfies the loop-body contracts' preconditions; the function-level "
                 "contract composes the per-iteration contracts (summarised loops: the invariant is an obligation at loop "
                 "entry, restated in the loop-body contracts' pre and post, assumed with the negated condition at exit)",
                 "lemma mul_tdiv_overflow (lemmas/Arith.lean, checked with lean in the thorough tier) is used as an "
                 "instance for the two overflow tests; its reading on 64-bit vectors (bvmul = wrap64 of the product, "
                 "bvsdiv = truncating division) is the SMT-LIB semantics",
                 "scope: default allocator (ffi.new_allocator() objects call user code), flexible arrays whose items are "
                 "not zero-sized (add_varsize_length divides by the item size: recorded divergence), initializers that "
                 "are lists/tuples/bytes/ints (str lengths are C15's), no nested struct that itself ends in a flexible "
                 "array on the sizing path (the propagation of the mark is proved, the recursive sizing is not)"],
        quick_budget=300,
        technique="contract-based deductive verification: allocation/zero-fill contracts, loop-body contracts for the "
                  "initializer loops, call-trace ghost state for 'the same conversion as assignment', cvc")
