"""C06 -- primitive type facts agree with the compiler and across all type tables (complete finite enumeration)."""
import os
import subprocess
import tempfile
import z3

from vf import driver, cfront, tables
from vf.smt import Ob
from contracts.c import allc

PID = 'C06'
FUNCS = ['search_standard_typename']
SIGNED, UNSIGNED, CHAR, FLOAT, COMPLEX = 0x001, 0x002, 0x004, 0x008, 0x400
IS_LONGDOUBLE, IS_BOOL, IS_SIGNED_WCHAR = 0x00040000, 0x00080000, 0x04000000
C_SPELLING = {'_cffi_float_complex_t': 'float _Complex', '_cffi_double_complex_t': 'double _Complex'}

PROBE = r'''
#include <stdio.h>
#include <stddef.h>
#include <stdint.h>
#include <wchar.h>
#include <uchar.h>
#include <sys/types.h>
#include <complex.h>
#define P(name, T) printf("%%s|%%d|%%d|%%d|%%d|0\n", name, (int)sizeof(T), (int)_Alignof(T), \
    (int)(((T)-1) < (T)0), (int)((T)0.5 != (T)0 && (T)0.5 != (T)1))
#define PC(name, T) printf("%%s|%%d|%%d|0|0|%%d\n", name, (int)sizeof(T), (int)_Alignof(T), \
    (int)(sizeof(T) == 2 * sizeof(__real__ (T)1) && __imag__ ((T)1 * (T)_Complex_I) != 0))
int main(void) {
%s
    return 0;
}
'''


def compiler_facts(names):
    """{name: (sizeof, alignof, is_signed, is_floating, is_complex)} as gcc reports them"""
    d = tempfile.mkdtemp(prefix='c06-')
    try:
        lines = []
        for n in names:
            cn = C_SPELLING.get(n, n)
            lines.append('    %s("%s", %s);' % ('PC' if 'Complex' in cn else 'P', n, cn))
        src = os.path.join(d, 'p.c')
        open(src, 'w').write(PROBE % "\n".join(lines))
        subprocess.run(['gcc', '-std=gnu11', '-o', os.path.join(d, 'p'), src], check=True, capture_output=True)
        out = subprocess.run([os.path.join(d, 'p')], check=True, capture_output=True, text=True).stdout
    finally:
        pass
    facts = {}
    for ln in out.strip().split('\n'):
        f = ln.split('|')
        facts[f[0]] = tuple(int(x) for x in f[1:])
    import shutil
    shutil.rmtree(d, ignore_errors=True)
    return facts


BATTERY = r'''
import sys, os, subprocess, tempfile, importlib, warnings
warnings.simplefilter("ignore")
import cffi, _cffi_backend
from cffi import model
names = sorted(model.PrimitiveType.ALL_PRIMITIVE_TYPES) + ['bool', 'float _Complex', 'double _Complex']
spell = {'_cffi_float_complex_t': 'float _Complex', '_cffi_double_complex_t': 'double _Complex', 'bool': '_Bool'}
d = tempfile.mkdtemp()
lines = []
for n in names:
    cn = spell.get(n, n); cx = 1 if 'Complex' in cn else 0
    lines.append('printf("%%d|%%d|%%d\\n", (int)sizeof(%s), (int)_Alignof(%s), %s);' % (cn, cn, '0' if cx else '(int)(((%s)-1) < (%s)0)' % (cn, cn)))
open(os.path.join(d, "p.c"), "w").write("#include <stdio.h>\n#include <stddef.h>\n#include <stdint.h>\n#include <wchar.h>\n#include <uchar.h>\n#include <sys/types.h>\nint main(void){\n" + "\n".join(lines) + "\nreturn 0;}\n")
assert subprocess.run(["gcc", "-std=gnu11", "-o", os.path.join(d, "p"), os.path.join(d, "p.c")]).returncode == 0
rows = subprocess.run([os.path.join(d, "p")], capture_output=True, text=True).stdout.split()
cc = {n: tuple(int(x) for x in r.split("|")) for n, r in zip(names, rows)}
bad = []
ffi = cffi.FFI()
o = cffi.FFI()
o.cdef("".join("typedef %s t_%d;\n" % (n, i) for i, n in enumerate(names)))
o.set_source("_c06_mod", None)
o.emit_python_code(os.path.join(d, "_c06_mod.py"))
sys.path.insert(0, d)
offi = importlib.import_module("_c06_mod").ffi
cffi_c = _cffi_backend.FFI()
for i, n in enumerate(names):
    t = ffi.typeof(n)
    size, align, sgn = cc[n]
    if (ffi.sizeof(t), ffi.alignof(t)) != (size, align):
        bad.append("%s: cffi says sizeof/alignof = %d/%d, the C compiler says %d/%d" % (n, ffi.sizeof(t), ffi.alignof(t), size, align))
    if t.kind == 'primitive' and model.PrimitiveType.ALL_PRIMITIVE_TYPES.get(spell.get(n, n) if n == 'bool' else t.cname, 'i') == 'i' and t.cname != '_Bool':
        neg = int(ffi.cast(t, -1)) < 0
        if neg != bool(sgn):
            bad.append("%s: cffi treats it as %s, the C compiler as %s" % (n, "signed" if neg else "unsigned", "signed" if sgn else "unsigned"))
    t2 = offi.typeof("t_%d" % i)
    if t2.cname != t.cname or offi.sizeof(t2) != size:
        bad.append("%r denotes <ctype '%s'> in the in-line FFI but <ctype '%s'> through the opcode index emitted by the code generator (typedef %s t_%d)" % (n, t.cname, t2.cname, n, i))
    try:
        t3 = cffi_c.typeof(n)
        if t3.cname != t.cname:
            bad.append("%r denotes <ctype '%s'> in the in-line FFI but <ctype '%s'> in the C backend's type parser" % (n, t.cname, t3.cname))
    except Exception as e:
        bad.append("%r: the C backend's type parser raises %s" % (n, e.__class__.__name__))
if bad:
    print("FAIL %d primitive-type discrepancies; first: %s" % (len(bad), " ;; ".join(bad[:3]))); sys.exit(1)
print("ok")
'''


def concretise(ob, model):
    return BATTERY


def table_obligations(rep, tu):
    obs = []

    def ob(label, cond, fn='tables', witness=None):
        obs.append(Ob("%s[%s]" % (fn, label), [], z3.BoolVal(bool(cond)), kind='table', fn=fn, witness=witness or {}))
    bt = tables.backend_types_table(tu)
    pn = tables.primitive_name_table(tu)
    macros = tables.header_prim_macros()
    p2i, consts, kinds, aliases = tables.py_tables()
    names = sorted(kinds)
    facts = compiler_facts(names)
    by_name = {}
    for e in bt:
        by_name.setdefault(e['name'], []).append(e)
    nt, cg, bp = '_cffi_backend.c:new_primitive_type:types', 'cffi_opcode.py:PRIMITIVE_TO_INDEX', \
        'realize_c_type.c:build_primitive_type:primitive_name'
    for n in names:
        es = by_name.get(n, [])
        ob("'%s' has exactly one entry" % n, len(es) == 1, nt)
        if len(es) != 1:
            continue
        e = es[0]
        size, align, sgn, flt, cplx = facts[n]
        fl = e['flags']
        ob("'%s': size is the compiler's sizeof (%d)" % (n, size), e['size'] == size, nt)
        ob("'%s': alignment is the compiler's alignof (%d)" % (n, align), e['align'] == align, nt)
        k = kinds[n]
        cls = fl & (SIGNED | UNSIGNED | CHAR | FLOAT | COMPLEX)
        ob("'%s': exactly one kind flag" % n, cls in (SIGNED, UNSIGNED, CHAR, FLOAT, COMPLEX), nt)
        if k == 'i':
            ob("'%s': an integer type, flagged signed exactly when the compiler's type is signed" % n,
               (not flt) and (not cplx) and cls == (SIGNED if sgn else UNSIGNED), nt)
            ob("'%s': _Bool flag exactly for _Bool" % n, bool(fl & IS_BOOL) == (n == '_Bool'), nt)
        elif k == 'c':
            ob("'%s': a character type (integer in C), wchar_t signedness flag as the compiler's" % n,
               (not flt) and (not cplx) and cls == CHAR and
               (bool(fl & IS_SIGNED_WCHAR) == bool(sgn) if n == 'wchar_t' else not (fl & IS_SIGNED_WCHAR)), nt)
        elif k == 'f':
            ob("'%s': a real floating type, long-double flag exactly for long double" % n,
               flt and not cplx and cls == FLOAT and bool(fl & IS_LONGDOUBLE) == (n == 'long double'), nt)
        elif k == 'j':
            ob("'%s': a complex type" % n, cplx and cls == COMPLEX, nt)
        else:
            ob("'%s': kind letter %r is one of i, c, f, j" % (n, k), False, 'model.py:ALL_PRIMITIVE_TYPES')
        # the compiled / out-of-line path: name -> index (code generator) -> name (realize_c_type.c)
        ob("'%s' has an opcode index" % n, n in p2i, cg)
        if n in p2i:
            i = p2i[n]
            ob("'%s' -> #%d -> '%s': the index emitted by the code generator denotes the same name in the C backend"
               % (n, i, pn[i] if 0 <= i < len(pn) else None), 0 <= i < len(pn) and pn[i] == n, cg,
               witness={'index': z3.IntVal(i)})
    for n in sorted(set(p2i) - set(kinds)):
        ob("'%s' is a known primitive name" % n, False, cg)
    for n in sorted(set(by_name) - set(kinds)):
        ob("backend entry '%s' is a primitive name the Python side knows" % n, False, nt)
    for i, n in enumerate(pn):
        if n is not None:
            ob("#%d '%s' is the index the code generator uses for that name" % (i, n), p2i.get(n) == i, bp)
    ob("index table covers exactly the %d primitive numbers of parse_c_type.h" % macros.get('_CFFI__NUM_PRIM', -1),
       len(pn) == macros.get('_CFFI__NUM_PRIM'), bp)
    for cname, v in sorted(consts.items()):
        if cname.startswith('PRIM_'):
            ob("%s == _CFFI_%s (%d)" % (cname, cname, v), macros.get('_CFFI_' + cname) == v, 'cffi_opcode.py:PRIM_*')
    for a, tgt in sorted(aliases.items()):
        ob("alias '%s' -> '%s' names a primitive type" % (a, tgt), tgt in kinds, 'commontypes.py:COMMON_TYPES')
    return obs, []


def main(tier, seed):
    return driver.run_property(
        PID, tier, seed, c_part=(allc.R, FUNCS), more=table_obligations, concretise=concretise,
        trusted=["the property's domain is finite: every primitive name of model.PrimitiveType.ALL_PRIMITIVE_TYPES "
                 "(plus the commontypes aliases) is enumerated; the per-name obligations are ground facts computed from "
                 "tables read out of the real sources on every run (clang AST of the types[] initialiser of "
                 "new_primitive_type and of primitive_name[] of build_primitive_type; `ast` of cffi_opcode.py, model.py, "
                 "commontypes.py; the _CFFI_PRIM_* macros from the text of parse_c_type.h)",
                 "the compiler's facts (sizeof, _Alignof, signedness, floating/complex) come from a gcc probe program "
                 "compiled on every run; clang's evaluation of the table initialisers is taken as gcc's (T-CLANG)",
                 "offsetof(struct aligncheck_X, y) is taken to be the alignment of y's type",
                 "search_standard_typename is verified for ALL byte strings against the index table (memcmp: assumed "
                 "contract, zero iff equal); the keyword path of the C type parser (parse_complete: 'unsigned long' "
                 "etc.) and new_primitive_type's own loop/flag computation (CT_PRIMITIVE_FITS_LONG) are not under "
                 "contract here -- the integer range then follows from size and signedness through C03's converters"],
        technique="contract-based deductive verification of search_standard_typename + exhaustive enumeration of the "
                  "finite name set as ground obligations over tables extracted from the real sources")
