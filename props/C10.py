"""C10 -- enum values and underlying integer type match the C compiler."""
import z3

from vf import driver
from contracts.py import enums

PID = 'C10'

REPLAY = r'''
import sys, os, subprocess, tempfile
import cffi
MN, MX = %(mn)d, %(mx)d
decl = "enum e { A = %%d, B = %%d };" %% (MN, MX) if MN != MX else "enum e { A = %%d };" %% MN
# ground truth from the C compiler
d = tempfile.mkdtemp()
lit = lambda v: ("%%dLL" %% v if v >= 0 else "(-%%dLL-1)" %% (-v - 1)) if -(1 << 63) <= v < (1 << 63) else "%%dULL" %% v
cdecl = "enum e { A = %%s, B = %%s };" %% (lit(MN), lit(MX))
open(os.path.join(d, "t.c"), "w").write('#include <stdio.h>\n%%s\nint main(void){ printf("%%%%d %%%%d\\n", (int)sizeof(enum e), (int)((enum e)-1 < 0)); return 0; }\n' %% cdecl)
r = subprocess.run(["gcc", "-w", "-o", os.path.join(d, "t"), os.path.join(d, "t.c")], capture_output=True, text=True)
if r.returncode != 0:
    print("gcc rejects the enum (not a valid C declaration): %%s" %% r.stderr.strip().split("\n")[0]); sys.exit(0)
size, signed = map(int, subprocess.run([os.path.join(d, "t")], capture_output=True, text=True).stdout.split())
bad = []
ffi = cffi.FFI()
ffi.cdef(decl)
try:
    got = (ffi.sizeof("enum e"), int(ffi.cast("enum e", -1)) < 0)
    if got != (size, bool(signed)):
        bad.append("in-line: cffi (sizeof=%%d, signed=%%r), gcc (sizeof=%%d, signed=%%r)" %% (got + (size, bool(signed))))
    if ffi.typeof("enum e").relements != {"A": MN, "B": MX} and MN != MX:
        bad.append("in-line: enumerator values %%r" %% (ffi.typeof("enum e").relements,))
except Exception as e:
    bad.append("in-line: %%s: %%s" %% (e.__class__.__name__, e))
# out-of-line ABI
ffi2 = cffi.FFI(); ffi2.cdef(decl); ffi2.set_source("_c10_mod", None)
try:
    ffi2.emit_python_code(os.path.join(d, "_c10_mod.py"))
    sys.path.insert(0, d)
    import _c10_mod
    f = _c10_mod.ffi
    got = (f.sizeof("enum e"), int(f.cast("enum e", -1)) < 0)
    if got != (size, bool(signed)):
        bad.append("out-of-line: cffi (sizeof=%%d, signed=%%r), gcc (sizeof=%%d, signed=%%r)" %% (got + (size, bool(signed))))
except Exception as e:
    bad.append("out-of-line: %%s: %%s" %% (e.__class__.__name__, e))
if bad:
    print("FAIL %%s: %%s" %% (decl, "; ".join(bad))); sys.exit(1)
print("ok")
'''


def concretise(ob, model):
    if 'smallest_value' not in model:
        return None
    return REPLAY % dict(mn=model['smallest_value'], mx=model['largest_value'])


def main(tier, seed):
    items = [('src/cffi/model.py', enums.R, 'EnumType.build_baseinttype',
              enums.R.contracts['model:EnumType.build_baseinttype'])]
    return driver.run_property(
        PID, tier, seed, py_items=items, concretise=concretise,
        trusted=["assumed: ffi.sizeof of int/unsigned int is 4 and of long/unsigned long is 8 (LP64; the backend "
                 "table is C06's subject); min()/max() of the enumerator values are represented by two ghost integers "
                 "smallest_value <= largest_value",
                 "T-SPEC: gcc's rule for the underlying type (unsigned int / unsigned long without negative values, "
                 "int / long with) -- the replay of every counter-model asks the real gcc",
                 "not decided here: enumerator value computation (C09), the API-mode path where the compiler reports "
                 "size/signedness, and ffi.string() of enum cdata (backend, b_new_enum_type)"],
        technique="contract-based deductive verification: contract on the real Python function, VCs generated from "
                  "ast.parse of the current source by path-wise symbolic execution, z3 integers")
