"""C35 -- pkg-config output is translated to build keywords without loss."""
import z3

from vf import driver
from vf.smt import Ob
from contracts.py import pkgconfig as P

PID = 'C35'

REPLAY = r'''
import sys, os, stat, tempfile
EXTRA = %(extra)r
d = tempfile.mkdtemp()
CFLAGS = {"one": "-I/usr/inc  -DNDEBUG -DONE_API= -DVER=3\t-pthread -I. " + " ".join(EXTRA),
          "two": "-DTWO_EXPORT= -DEXPR=a==b -fPIC -Irel/dir -D_X -isystem /x " + " ".join(EXTRA)}
LIBS = {"one": "-L/usr/lib -lone -Wl,-rpath,/x -pthread " + " ".join(EXTRA),
        "two": "-ltwo  -L. -lm -framework Foo " + " ".join(EXTRA)}
stub = os.path.join(d, "pkg-config")
for n in CFLAGS:
    open(os.path.join(d, n + ".c"), "w").write(CFLAGS[n] + "\n")
    open(os.path.join(d, n + ".l"), "w").write(LIBS[n] + "\n")
with open(stub, "w") as f:
    f.write("#!/bin/sh\nfor a in \"$@\"; do case $a in --cflags) m=c;; --libs) m=l;; --print-errors) ;; *) n=$a;; esac; done\n")
    f.write("if [ -f %%s/$n.$m ]; then cat %%s/$n.$m; exit 0; fi\n" %% (d, d))
    f.write("echo 'Package not found' >&2; exit 1\n")
os.chmod(stub, 0o755)
os.environ["PATH"] = d + os.pathsep + os.environ["PATH"]
from cffi import pkgconfig
from cffi.error import PkgConfigError
def ref(names):
    out = {k: [] for k in ("include_dirs", "library_dirs", "libraries", "define_macros", "extra_compile_args", "extra_link_args")}
    for n in names:
        for t in CFLAGS[n].split():
            if t.startswith("-I"): out["include_dirs"].append(t[2:])
            elif t.startswith("-D"):
                k, eq, v = t[2:].partition("=")
                out["define_macros"].append((k, v if eq else None))
            else: out["extra_compile_args"].append(t)
        for t in LIBS[n].split():
            if t.startswith("-L"): out["library_dirs"].append(t[2:])
            elif t.startswith("-l"): out["libraries"].append(t[2:])
            else: out["extra_link_args"].append(t)
    return out
bad = []
for names in (["one"], ["two"], ["one", "two"], ["two", "one"]):
    got, want = pkgconfig.flags_from_pkgconfig(names), ref(names)
    for k in want:
        if got.get(k) != want[k]:
            bad.append("flags_from_pkgconfig(%%r)[%%r]: observed %%r, expected %%r" %% (names, k, got.get(k), want[k]))
try:
    pkgconfig.flags_from_pkgconfig(["missing"]); bad.append("missing package did not raise")
except PkgConfigError:
    pass
except Exception as e:
    bad.append("missing package raised %%s" %% e.__class__.__name__)
m = pkgconfig.merge_flags({"a": [1], "b": [2]}, {"a": [3], "c": [4]})
if m != {"a": [1, 3], "b": [2], "c": [4]}:
    bad.append("merge_flags gave %%r" %% (m,))
if bad:
    print("FAIL " + " ;; ".join(bad[:3])); sys.exit(1)
print("ok")
'''


def concretise(ob, model):
    extra = []
    for k, v in model.items():
        if k.startswith('token') and isinstance(v, str):
            t = v.strip('"')
            if t and not any(c.isspace() for c in t) and "'" not in t and '\\' not in t and '"' not in t:
                extra.append(t)
    return REPLAY % dict(extra=extra)


def lemmas():
    x = z3.String('token')
    sw = lambda p: z3.PrefixOf(z3.StringVal(p), x)
    return [Ob('lemma:C35:cflags-token-lands-in-exactly-one-keyword', [],
               z3.Not(z3.And(sw('-I'), sw('-D'))), kind='lemma', fn='lemma', witness={'token': x}),
            Ob('lemma:C35:libs-token-lands-in-exactly-one-keyword', [],
               z3.Not(z3.And(sw('-L'), sw('-l'))), kind='lemma', fn='lemma', witness={'token': x})]


def main(tier, seed):
    return driver.run_property(
        PID, tier, seed, py_items=P.items(), lemmas=lemmas, concretise=concretise,
        trusted=["A-PY: str.split() with no argument yields the maximal whitespace-free substrings in order; "
                 "comprehensions over it are verified on a generic token (non-empty, no whitespace) -- the list-level "
                 "conclusion uses the filter/map congruence lemma L-FILTERMAP (elementary induction, not mechanised)",
                 "subprocess.Popen / communicate / bytes.decode are assumed contracts (may raise OSError / return any "
                 "status and bytes / raise UnicodeDecodeError); pkg-config's decoded output for (package, flag) is a "
                 "ghost function",
                 "the outer loop of flags_from_pkgconfig over the package list is checked for 0, 1 and 2 packages "
                 "(bounded in the list length only; merge_flags itself is verified for arbitrary list contents)"],
        technique="contract-based deductive verification of the real Python functions: per-token obligations for the "
                  "six filters, structural obligations for the dictionary wiring and merge order; path-wise VCs from "
                  "ast.parse, z3 strings")
