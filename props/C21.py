"""C21 -- ownership, destructors and handles over any history (ffi.gc, ffi.release / with, new_allocator,
from_buffer, new_handle / from_handle)."""
import os

from vf import driver
from contracts.c import owner

PID = 'C21'
FUNCS = owner.C21_FUNCS
BATTERY = open(os.path.join(driver.VERIF, 'bounded', 'owner_battery.py')).read()


def concretise(ob, model):
    return BATTERY


def more(rep, tu):
    return list(owner.flow_obligations(tu)), []


def main(tier, seed):
    return driver.run_property(
        PID, tier, seed, c_part=(owner.R, FUNCS), concretise=concretise, quick_budget=120, more=more,
        lemmas=owner.history_lemmas,
        layout_types=('PyObject', 'PyTypeObject', 'CTypeDescrObject', 'CDataObject', 'CDataObject_gcp',
                      'CDataObject_own_structptr', 'CDataObject_frombuf', 'Py_buffer', 'cffi_allocator_t'),
        trusted=["A-REFCNT: WHEN an object is deallocated (tp_dealloc / tp_finalize / tp_clear run once, when the last "
                 "reference goes or the cycle collector decides) is CPython's business and assumed; what cffi does at "
                 "those moments, at ffi.release() and at ffi.gc(p, None) is under contract.  'Keeps alive' statements "
                 "are: the holder stores the reference in a field that only the listed functions write or release",
                 "the history argument is a lemma over the operation contracts (contracts/c/owner.py:history_lemmas): "
                 "per wrapper, calls + [armed] == 1 from creation on unless the destructor was removed; the step "
                 "relations of the lemma are the post-conditions of cdatagcp_finalize / cdata_exit / b_gcp / "
                 "cdatagcp_dealloc restricted to one wrapper, and 'any other operation leaves armed and calls alone' is "
                 "the whole-TU scan obligation (the destructor member is written by three functions only) plus the "
                 "fact that gcp_finalize is the only caller of a destructor",
                 "the destructor / alloc / free callables run arbitrary Python code: everything shared is arbitrary "
                 "after such a call (callee havoc), except this frame's private locals (A-STACK), the engine's call "
                 "trace, and the allocator record (whole-TU scan obligation: written only by its owner)",
                 "_my_PyErr_WriteUnraisable (prints the destructor's exception) is under contract here: no exception is left "
                 "pending whatever the printing does; cdata_dealloc is an assumed contract (frees the object)",
                 "the buffer protocol is an assumed contract: PyObject_GetBuffer success stores the exporter in "
                 "view->obj (alive and export-locked until PyBuffer_Release), PyBuffer_Release is idempotent through "
                 "view->obj = NULL",
                 "live handles have distinct addresses because a handle's address is the handle object itself "
                 "(newp_handle's post-condition) and distinct live objects have distinct addresses (A-SEP)",
                 "b_from_handle on the address of a DEAD handle is the caller's error (Py_FatalError or undefined "
                 "behaviour): outside the contract's scope, as the property says 'live new_handle() call'",
                 "ffi_obj.c / api.py forward to these functions without state of their own (not under contract)"],
        technique="contract-based deductive verification: operation contracts over the engine's call trace (destructor "
                  "calls, buffer acquisitions/releases) + a history lemma over those contracts + whole-TU frame scans; cvc")
