"""C01 -- struct/union layout equals the C compiler's (b_complete_struct_or_union_lock_held and its helpers, and the
Python path that carries packed= / pack= to it)."""
import ast
import os

import z3

from vf import driver, cfront, smt
from contracts.c import allc
from contracts.py import packing
from specs import layout as L

PID = 'C01'
FUNCS = ['complete_sflags', 'get_alignment', 'force_lazy_struct', 'detect_custom_layout', '_add_field',
         'b_complete_struct_or_union_lock_held', 'b_complete_struct_or_union_lock_held#field-loop',
         'b_complete_struct_or_union_lock_held#anonymous-member-loop']

BATTERY = open(os.path.join(driver.VERIF, 'bounded', 'layout_battery.py')).read()


def concretise(ob, model):
    return BATTERY


def flow_obligations(rep, tu):
    """Parser._get_struct_union_enum_type stores the packing option of the current cdef() on EVERY struct/union whose
    fields it has just collected -- named, nested or anonymous: the statement  tp.packed = self._options.get('packed')
    is a direct statement of the function body (not under any `if`/loop/try), placed after the assignment of the field
    lists and before the function's final return, with no `return` in between; nothing else in the function assigns a
    `.packed` attribute.  (An AST obligation: it asks for unconditional execution, not for a particular text.)"""
    path = os.path.join(cfront.REPO, 'src/cffi/cparser.py')
    tree = ast.parse(open(path).read())
    fn = None
    for node in ast.walk(tree):
        if isinstance(node, ast.ClassDef) and node.name == 'Parser':
            for b in node.body:
                if isinstance(b, ast.FunctionDef) and b.name == '_get_struct_union_enum_type':
                    fn = b
    name = 'cparser.py:Parser._get_struct_union_enum_type:flow'
    if fn is None:
        rep.errors.append("Parser._get_struct_union_enum_type not found (renamed or removed?)")
        return [], []

    def is_attr_store(st, attr):
        return isinstance(st, ast.Assign) and any(isinstance(t, ast.Attribute) and t.attr == attr for t in st.targets)

    def is_option_read(e):
        return (isinstance(e, ast.Call) and isinstance(e.func, ast.Attribute) and e.func.attr == 'get'
                and isinstance(e.func.value, ast.Attribute) and e.func.value.attr == '_options'
                and len(e.args) >= 1 and isinstance(e.args[0], ast.Constant) and e.args[0].value == 'packed'
                and (len(e.args) == 1 or (isinstance(e.args[1], ast.Constant) and not e.args[1].value)))
    body = fn.body
    i_fld = [k for k, st in enumerate(body) if is_attr_store(st, 'fldnames')]
    i_pk = [k for k, st in enumerate(body) if is_attr_store(st, 'packed')]
    all_pk = [n for n in ast.walk(fn) if is_attr_store(n, 'packed')]
    unconditional = bool(i_fld) and len(i_pk) == 1 and len(all_pk) == 1 and i_pk[0] > i_fld[-1] and \
        is_option_read(body[i_pk[0]].value) and \
        not any(isinstance(n, ast.Return) for st in body[i_fld[-1]:i_pk[0]] for n in ast.walk(st)) and \
        any(isinstance(st, ast.Return) for st in body[i_pk[0]:])
    same_obj = bool(i_fld) and bool(i_pk) and ast.dump(body[i_fld[-1]].targets[0].value) == ast.dump(body[i_pk[0]].targets[0].value)
    rep.functions.append({'name': 'Parser._get_struct_union_enum_type', 'file': 'src/cffi/cparser.py',
                          'lines': [fn.lineno, fn.end_lineno], 'obligations': 2, 'kind': 'AST flow obligation'})
    return [smt.Ob(name + "[the packing option is stored unconditionally on every struct/union whose fields were collected]",
                   [], z3.BoolVal(unconditional), kind='flow', fn='_get_struct_union_enum_type'),
            smt.Ob(name + "[it is stored on the same object that received the field lists]", [], z3.BoolVal(same_obj),
                   kind='flow', fn='_get_struct_union_enum_type')], []


def lemmas():
    return L.lemmas() + packing.pow2_lemma()


def main(tier, seed):
    return driver.run_property(
        PID, tier, seed, c_part=(allc.R, FUNCS), py_items=packing.items(), concretise=concretise, lemmas=lemmas,
        more=flow_obligations,
        layout_types=('PyObject', 'PyTypeObject', 'CTypeDescrObject', 'CFieldObject', 'PyListObject'),
        trusted=["Python side: Parser.parse and StructOrUnion.finish_backend_type are under pyvc contracts (pack is 0 or a "
                 "power of two; flags (8,) / (0, pack) / none); `x & (x-1)` is an uninterpreted function in pyvc, its "
                 "meaning enters through lemma pow2-test, discharged on 64-bit vectors (pack below 2^62)",
                 "Parser._get_struct_union_enum_type is covered by an AST flow obligation only (the packing option is "
                 "stored unconditionally on the struct/union being completed), not by symbolic execution"],
        technique="contract-based deductive verification: loop-body refinement of a bit-coordinate ABI layout step (cvc), "
                  "pyvc contracts and an AST flow obligation for the packing option")
