"""C01 -- struct/union layout equals the C compiler's (b_complete_struct_or_union_lock_held and its helpers)."""
import os

from vf import driver
from contracts.c import allc
from specs import layout as L

PID = 'C01'
FUNCS = ['complete_sflags', 'get_alignment', 'force_lazy_struct', 'detect_custom_layout', '_add_field',
         'b_complete_struct_or_union_lock_held', 'b_complete_struct_or_union_lock_held#field-loop',
         'b_complete_struct_or_union_lock_held#anonymous-member-loop']

BATTERY = open(os.path.join(driver.VERIF, 'bounded', 'layout_battery.py')).read()


def concretise(ob, model):
    return BATTERY


def main(tier, seed):
    return driver.run_property(
        PID, tier, seed, c_part=(allc.R, FUNCS), concretise=concretise, lemmas=L.lemmas,
        layout_types=('PyObject', 'PyTypeObject', 'CTypeDescrObject', 'CFieldObject', 'PyListObject'),
        trusted=[], technique="contract-based deductive verification: loop-body refinement of a bit-coordinate ABI "
                              "layout step, cvc")
