"""C25 -- every declared name is found by the runtime lookup of generated tables."""
import itertools
import z3

from vf import driver
from vf.smt import Ob
from contracts.c import allc, lookup

PID = 'C25'
FUNCS = ['search_sorted'] + lookup.SEARCH_IN

# When an obligation of the lookup fails, the counter-model lives in ghost functions (an abstract
# sorted table); to exhibit a concrete failing input the replay runs a fixed battery of identifier
# sets (prefix pairs, every class of continuation character, every delimiter that can follow a name
# in a type string) through real out-of-line modules.
BATTERY = r'''
import sys, os, tempfile, importlib, itertools
import cffi

CONT = ["0", "9", "A", "Z", "_", "a", "z", "Zz", "_0", "a_"]          # continuation after a common prefix
BASES = ["p", "Q", "ab", "x9", "_u", "T_"]
DELIMS = ["", " ", "*", " *", "[2]", " [2]", "[]", "(*)(void)", " const", "[2][3]"]

def name_sets():
    for b in BASES:
        yield [b] + [b + c for c in CONT]                  # one name and its extensions
    yield ["a", "aa", "aaa", "aaaa", "ab", "aB", "a0", "b"]
    yield ["k%d" % i for i in range(40)]                   # larger table: deeper binary search
    yield ["Z", "Za", "ZA", "Z_", "Z0", "Y", "a", "_"]

def build(names, idx, tmp):
    ffi = cffi.FFI()
    lines = []
    for i, n in enumerate(names):
        lines.append("typedef struct { char x[%d]; } %s;" % (i + 1, n))
        lines.append("struct %s { char y[%d]; };" % (n, i + 1))
        lines.append("enum %s { E_%s = %d };" % (n, n, i + 1))
        lines.append("#define C_%s %d" % (n, i + 1))
    ffi.cdef("\n".join(lines))
    modname = "_c25_mod_%d" % idx
    ffi.set_source(modname, None)
    ffi.emit_python_code(os.path.join(tmp, modname + ".py"))
    sys.path.insert(0, tmp)
    try:
        return importlib.import_module(modname).ffi
    finally:
        sys.path.pop(0)

def strip(ct):
    while ct.kind in ("pointer", "array"):
        ct = ct.item
    if ct.kind == "function":
        ct = ct.result
        while ct.kind in ("pointer", "array"):
            ct = ct.item
    return ct

bad = []
tmp = tempfile.mkdtemp()
for idx, names in enumerate(name_sets()):
    ffi = build(names, idx, tmp)
    for i, n in enumerate(names):
        for d in DELIMS:
            for prefix, want_name, want_size in (("", n, i + 1), ("struct ", "struct " + n, i + 1), ("enum ", "enum " + n, 4)):
                s = prefix + n + d
                try:
                    ct = strip(ffi.typeof(s))
                    if ct.cname != want_name or ffi.sizeof(ct) != want_size:
                        bad.append("typeof(%r) resolved to %s (size %d), expected %s (size %d)"
                                   % (s, ct.cname, ffi.sizeof(ct), want_name, want_size))
                except Exception as e:
                    bad.append("typeof(%r) raised %s: %s" % (s, e.__class__.__name__, str(e).split("\n")[0]))
        try:
            v = ffi.integer_const("C_" + n)
            if v != i + 1:
                bad.append("integer_const(C_%s) == %r, expected %d" % (n, v, i + 1))
        except Exception as e:
            bad.append("integer_const(C_%s) raised %r" % (n, e))
        s = "int[C_%s]" % n
        try:
            if ffi.typeof(s).length != i + 1:
                bad.append("typeof(%r).length wrong" % s)
        except Exception as e:
            bad.append("typeof(%r) raised %s" % (s, e.__class__.__name__))
    # undeclared near-misses must not be found
    for n in names:
        for miss in (n + "$", n + "__none", n[:-1] if len(n) > 1 and n[:-1] not in names else n + "q9"):
            if miss in names:
                continue
            for prefix in ("", "struct ", "enum "):
                try:
                    ct = ffi.typeof(prefix + miss)
                    if prefix == "" or ct.kind != "struct" or ct.fields is not None:
                        if prefix != "struct " and prefix != "enum ":
                            bad.append("undeclared name %r was found as %s" % (prefix + miss, ct.cname))
                except Exception:
                    pass
if bad:
    print("FAIL %d lookups violate C25; first: %s" % (len(bad), " ;; ".join(bad[:3])))
    sys.exit(1)
print("ok")
'''


def concretise(ob, model):
    return BATTERY


def strfacts_bounded(rep, tu):
    """T-STR / T-ORDER: the string-order facts assumed by the strncmp contract and the table invariant,
    checked by exhaustive enumeration over short strings against the real libc strncmp (bounded)."""
    import ctypes
    libc = ctypes.CDLL(None)
    libc.strncmp.restype = ctypes.c_int
    alpha = [1, 2, 255]
    strs = [bytes(t) for n in range(0, 4) for t in itertools.product(alpha, repeat=n)]
    cases = bad = 0
    sign = lambda x: (x > 0) - (x < 0)
    for a in strs:
        for k in strs:
            n = len(k)
            d = libc.strncmp(a + b'\0', k + b'\x07', n)         # the byte after the key is not part of it
            kc = sign((a > k) - (a < k))
            an = (a + b'\0')[n] if n <= len(a) else None
            ok = (not d < 0 or kc == -1) and (not d > 0 or kc == 1)
            if d == 0:
                ok = ok and n <= len(a) and ((an == 0) == (kc == 0)) and ((an != 0) == (kc == 1))
            if kc == 0:
                ok = ok and d == 0 and an == 0
            cases += 1
            bad += (not ok)
    # T-ORDER: strictly sorted sequence => comparisons with any key monotone, at most one zero
    srt = sorted(set(strs))
    for k in strs:
        kcs = [sign((s > k) - (s < k)) for s in srt]
        cases += 1
        bad += not (kcs == sorted(kcs) and kcs.count(0) <= 1)
    rep.bounded.append({'what': 'T-STR/T-ORDER string-order facts vs libc strncmp and Python bytes order',
                        'bound': 'all strings of length <= 3 over a 3-letter byte alphabet, as table entry and as key',
                        'cases': cases, 'violations': bad, 'counts_as_proof': False})
    if bad:
        rep.errors.append("T-STR facts fail on %d enumerated cases: the strncmp contract is wrong" % bad)


def main(tier, seed):
    def extra(rep, tu):
        strfacts_bounded(rep, tu)
        want = {'struct _cffi_global_s': 32, 'struct _cffi_struct_union_s': 40, 'struct _cffi_typename_s': 16,
                'struct _cffi_enum_s': 24}
        for k, v in want.items():
            if tu.parse_type(k).size not in lookup.ITEM_SIZES:
                rep.errors.append("record %s has size %d, not among the item sizes assumed by search_sorted's contract"
                                  % (k, tu.parse_type(k).size))
    return driver.run_c_property(
        PID, tier, seed, allc.R, FUNCS, concretise=concretise, extra=extra,
        layout_types=('struct _cffi_type_context_s', 'struct _cffi_global_s', 'struct _cffi_struct_union_s',
                      'struct _cffi_typename_s', 'struct _cffi_enum_s'),
        trusted=["T-STR: sign facts relating strncmp's result to the three-way string comparison keycmp (contracts/c/"
                 "strings.py); T-ORDER: monotonicity of comparisons over a strictly sorted table -- both validated by "
                 "exhaustive enumeration over short strings on every run (bounded, reported under bounded_stand_ins)",
                 "the table invariant (names are C strings, strictly sorted in strcmp order) is the precondition that "
                 "the code generator must establish: Python side (recompiler sort order = strcmp order for ASCII "
                 "identifiers) is checked by the pyvc part when present, otherwise assumed"],
        technique="contract-based deductive verification: binary-search loop invariant over an abstract sorted table, "
                  "explicit instances of the quantified table invariant, memory-safety obligations on every read; z3")
