"""C29 -- callback closures stay distinct and bound to their own function (malloc_closure.h free list, b_callback)."""
import os

from vf import driver
from contracts.c import closures

PID = 'C29'
FUNCS = closures.C29_FUNCS
BATTERY = open(os.path.join(driver.VERIF, 'bounded', 'closure_battery.py')).read()


def concretise(ob, model):
    return BATTERY


def more(rep, tu):
    return closures.nonvacuity(tu), []


def main(tier, seed):
    return driver.run_property(
        PID, tier, seed, c_part=(closures.R, FUNCS), concretise=concretise, quick_budget=300, more=more,
        layout_types=('PyObject', 'PyTypeObject', 'CTypeDescrObject', 'CDataObject', 'CDataObject_closure', 'ffi_closure',
                      'union mmapped_block'),
        trusted=["ghost state cl_infree / cl_live / cl_rank / cl_count with the representation invariant INV "
                 "(contracts/c/closures.py); ghost assignments at function exit and at the end of loop iterations "
                 "(Contract.ghost_update / LoopSpec.ghost_update) -- the code never writes ghost state",
                 "mmap: assumed contract (MAP_FAILED, or a fresh mapping containing no block the allocator tracks: "
                 "earlier mappings are never unmapped); sysconf(_SC_PAGESIZE) in (0, 2^20]; fewer than 2^40 blocks",
                 "libffi (ffi_prep_closure stores fun and user_data in the closure on FFI_OK; the trampoline then calls "
                 "fun with that user_data) is assumed; prepare_callback_info_tuple is an assumed contract here (members "
                 "0 and 1 are the ctype and the callable; C14's subject)",
                 "A-REFCNT: that cdataowninggc_dealloc runs exactly when the last reference goes is CPython's business; "
                 "b_callback's error path that destroys the half-built cdata (Py_DECREF(cd)) relies on it",
                 "the GIL-less build (PyMutex around the free list) is not the build verified"],
        technique="contract-based deductive verification: representation invariant of the closure free list over ghost "
                  "state (quantified, arrays), preserved by alloc / free / more_core / b_callback / dealloc; cvc")
