"""C34 -- ffi.include() shares declarations instead of copying them."""
import os

from vf import driver
from contracts.c import include as cinc
from contracts.py import include as pyinc
from contracts.py import structflags

PID = 'C34'
BATTERY = open(os.path.join(driver.VERIF, 'bounded', 'include_battery.py')).read()


def concretise(ob, model):
    return BATTERY


def more(rep, tu):
    return cinc.kind_obligations(tu) + cinc.delegation_reached_obligation(tu), []


def main(tier, seed):
    return driver.run_property(
        PID, tier, seed, c_part=(cinc.R, cinc.C34_FUNCS), py_items=pyinc.items() + structflags.items(), concretise=concretise, quick_budget=120, more=more,
        layout_types=('PyObject', 'PyVarObject', 'PyTupleObject', 'FFIObject', 'builder_c_t', 'struct _cffi_struct_union_s',
                      'struct _cffi_type_context_s', 'LibObject'),
        trusted=["Python side: Parser._declare and Parser._add_constants are decided by an exhaustive case split over how the "
                 "new entry relates to the existing one; Parser.include is run on an included parser that declares one "
                 "entry of every kind word the real cparser.py ever passes to _declare (collected from its AST on every "
                 "run; an unreadable call site is an obligation failure) -- the loop treats entries independently, so "
                 "one entry per kind decides the kind filter; object identity is tracked through unique marks",
                 "that the SAME model object gives the SAME ctype in both FFIs is model.global_cache's business (keyed "
                 "by the model object; C27 covers the C-level cache)",
                 "compiled side: _realize_c_struct_or_union is RECORDED (builder, index, result of the latest call), "
                 "search_in_struct_unions is used through a weaker restatement of its C25 contract (ghost predicate "
                 "same_name); the struct tables, type contexts, FFI objects and tuples are not changed by type-building "
                 "code (kept through havocs; obligations at loop back edges and in the frame)",
                 "recursion through include chains uses the function's own contract (partial correctness; the depth "
                 "limit of 100 is a post-condition)",
                 "for every kind of named type a compiled module re-declares (struct/union and enum table entries) and for "
                 "integer constants, a structural obligation on the clang AST says that the realizing function consults "
                 "the included FFIs; the one for enums fails: known finding C34-enum-not-shared",
                 "make_included_tuples: the import machinery (PyImport_ImportModule, PyObject_GetAttrString of \"ffi\" / "
                 "\"lib\") is recorded; the NULL-terminated name list is kept as whole words in a heap of its own (A-SEP); "
                 "'none of the n names is NULL' is a quantified fact for callers, the body uses named instances",
                 "lib_build_and_cache_attr: only ONE iteration of its delegation loop over the included libs is under "
                 "contract (loop-body contract: every local is arbitrary at the loop head); the recursive call and "
                 "ffi_fetch_int_constant are recorded; PyDict_GetItem is a function of (dict, key); what surrounds the "
                 "loop (own globals, the `found:` caching) is not verified here",
                 "Recompiler._struct_ctx's flag word (contracts/py/structflags.py: a segment contract run on every "
                 "combination of outcomes of the seven tests the segment makes): _CFFI_F_EXTERNAL is emitted exactly for a "
                 "type, or a typedef'd pointer to it, that comes from an included FFI",
                 "not under contract: ffi_fetch_int_constant",
                 "layout of LibObject / FFIObject is cross-checked with gcc"],
        technique="contract-based deductive verification: Python functions by exhaustive case contracts (pyvc), the C "
                  "lookup through include chains over a trace of recorded realizations (cvc)")
