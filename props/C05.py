"""C05 -- floating-point and complex stores follow C conversion semantics; long double copies are bit-exact."""
import os

from vf import driver
from contracts.c import floats

PID = 'C05'
FUNCS = floats.C05_FUNCS
BATTERY = open(os.path.join(driver.VERIF, 'bounded', 'float_battery.py')).read()


def concretise(ob, model):
    return BATTERY


def main(tier, seed):
    return driver.run_property(
        PID, tier, seed, c_part=(floats.R, FUNCS), concretise=concretise,
        layout_types=('PyObject', 'PyTypeObject', 'CTypeDescrObject', 'CDataObject', 'Py_complex'),
        trusted=["T-SPEC: C's (float)double on this target is IEEE-754 round-to-nearest-even = z3's fp.to_fp RNE (the "
                 "replay battery compares the real build with struct.pack('f') on special values, random doubles and "
                 "random bit patterns)",
                 "stored values are compared as VALUES (all NaNs are one value): NaN payloads are not compared; a "
                 "double store is in addition proved bit-exact for every non-NaN value",
                 "long double is an opaque 128-bit pattern copied whole; double -> long double is the uninterpreted exact "
                 "embedding ld_of_double",
                 "PyFloat_AsDouble: assumed contract (a float object gives its value; objects with __float__ run arbitrary "
                 "code and are outside the scope); 1-character str sources: C15's _my_PyUnicode_AsSingleChar32",
                 "not under contract: the float branches of convert_to_object beyond what C18 proves "
                 "(read_raw_float_data is), the complex branches of convert_from_object / do_cast (their leaf "
                 "readers/writers are), PyComplex_AsCComplex"],
        technique="contract-based deductive verification with z3's IEEE-754 theory: leaf readers/writers, the float "
                  "branch of convert_from_object and of do_cast as contract instances; cvc")
