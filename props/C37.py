"""C37 -- closed dlopen libraries refuse further symbol access."""
import z3

from vf import driver
from contracts.c import allc, dl
from contracts.py import dlclose

PID = 'C37'
FUNCS = ['dl_check_closed'] + dl.ACCESSORS + ['dl_close_lib', 'cdlopen_fetch', 'cdlopen_close', 'ffi_dlclose']

BATTERY = r'''
import sys, os, subprocess, tempfile, importlib, warnings
warnings.simplefilter("ignore")
import cffi
d = tempfile.mkdtemp()
open(os.path.join(d, "t.c"), "w").write("int gv = 7; int gw = 9; int f1(int x){return x+1;} int f2(int x){return x+2;}\n")
so = os.path.join(d, "libt.so")
assert subprocess.run(["gcc", "-shared", "-fPIC", "-o", so, os.path.join(d, "t.c")]).returncode == 0
CDEF = "extern int gv; extern int gw; int f1(int); int f2(int);"
bad = []
def probe(mode, ffi, lib, close):
    if lib.f1(1) != 2 or lib.gv != 7:
        bad.append("%s: library does not work before close" % mode); return
    close(lib)
    for what, fn in (("read variable fetched before", lambda: lib.gv), ("read variable not fetched before", lambda: lib.gw),
                     ("write variable", lambda: setattr(lib, "gv", 1)), ("fetch new function", lambda: lib.f2),
                     ("write other variable", lambda: setattr(lib, "gw", 1))):
        try:
            fn()
            bad.append("%s: %s succeeded after dlclose" % (mode, what))
        except (ValueError, ffi.error if hasattr(ffi, "error") else ValueError, KeyError, AttributeError) as e:
            pass
        except Exception as e:
            bad.append("%s: %s raised %s" % (mode, what, e.__class__.__name__))
    try:
        close(lib)
    except Exception as e:
        bad.append("%s: closing twice raised %s" % (mode, e.__class__.__name__))
a = cffi.FFI(); a.cdef(CDEF)
probe("in-line", a, a.dlopen(so), a.dlclose)
b = cffi.FFI(); b.cdef(CDEF); b.set_source("_c37_mod", None); b.emit_python_code(os.path.join(d, "_c37_mod.py"))
sys.path.insert(0, d)
o = importlib.import_module("_c37_mod").ffi
probe("out-of-line", o, o.dlopen(so), o.dlclose)
if bad:
    print("FAIL " + " ;; ".join(bad[:4])); sys.exit(1)
print("ok")
'''


def concretise(ob, model):
    return BATTERY


def main(tier, seed):
    return driver.run_property(
        PID, tier, seed, c_part=(allc.R, FUNCS), py_items=dlclose.items(), concretise=concretise,
        layout_types=('DynLibObject', 'LibObject', 'PyObject', 'PyTypeObject', 'CTypeDescrObject'),
        trusted=["ghost call counters for dlsym / dlclose / PyDict_Clear; dlsym and dlclose *require* a non-NULL "
                 "handle (obligation at every call site), so an access that reaches the loader after the close fails "
                 "an obligation; PyArg_ParseTuple is an assumed contract keyed by its format string",
                 "the state-machine argument: dl_handle / l_libhandle is written only by the close functions (frame "
                 "obligations of every accessor), so once NULL it stays NULL over any history",
                 "not decided: lib_build_and_cache_attr's use of cdlopen_fetch (lib_obj.c) and the attribute protocol of "
                 "the in-line FFILibrary class (properties / __getattr__) -- only __cffi_close__'s call order is checked"],
        technique="contract-based deductive verification: closed-flag invariant via frame obligations, ghost call "
                  "traces, call-requires obligations on dlsym/dlclose; cvc + pyvc")
