"""C03 -- integer stores accept exactly the type's range and round-trip."""
import z3

from vf import driver
from vf.smt import Ob
from contracts.c import allc, ints
from specs import ints as S

PID = 'C03'
FUNCS = ['read_raw_signed_data', 'read_raw_unsigned_data', 'write_raw_integer_data',
         '_my_PyLong_AsLongLong', '_my_PyLong_AsUnsignedLongLong',
         'convert_from_object', 'convert_to_object'] + ints.TO_C_FUNCS + \
        ['_cffi_to_c__Bool', 'convert_from_object_fficallback']
BV = z3.BitVecVal


def lemmas():
    """store then read returns v; ABI path and API path accept the same set (used by C13)"""
    size = z3.BitVec('size', 64)
    flags = z3.BitVec('flags', 32)
    v = z3.BitVec('v', S.WIDE)
    sgn = ints.flag(flags, ints.CT_PRIMITIVE_SIGNED)
    uns = ints.flag(flags, ints.CT_PRIMITIVE_UNSIGNED)
    wf = [ints.size_ok(size), z3.Xor(sgn, uns),
          z3.Implies(ints.flag(flags, ints.CT_IS_BOOL), z3.And(uns, size == 1))]
    ok = ints.int_in_range(v, size, flags)
    unit = ints.unit_of(v, size)
    back = z3.If(sgn, S.wide(S.signed_of_unit(unit, size), True), S.wide(unit, False))
    wit = {'size': size, 'flags': flags, 'v_wide': v}
    out = [Ob('lemma:C03:read-after-accepted-store-returns-v', wf + [ok], back == v, kind='lemma', fn='lemma',
              witness=wit)]
    # the range the ABI path accepts for a (size, signedness) equals the range of the API converter of that width
    for bits in (8, 16, 32, 64):
        for s in (True, False):
            lo = -(1 << (bits - 1)) if s else 0
            hi = (1 << (bits - 1)) - 1 if s else (1 << bits) - 1
            fl = BV(ints.CT_PRIMITIVE_SIGNED if s else ints.CT_PRIMITIVE_UNSIGNED, 32)
            out.append(Ob('lemma:C03:abi-range-equals-api-range:%s%d' % ('i' if s else 'u', bits), [],
                          ints.int_in_range(v, BV(bits // 8, 64), fl) == z3.And(v >= S.W(lo), v <= S.W(hi)),
                          kind='lemma', fn='lemma', witness={'v_wide': v}))
    return out


TYPES = {(1, True): 'signed char', (2, True): 'short', (4, True): 'int', (8, True): 'long long',
         (1, False): 'unsigned char', (2, False): 'unsigned short', (4, False): 'unsigned int',
         (8, False): 'unsigned long long'}

REPLAY = r'''
import sys
import cffi
T, SIZE, SIGNED, ISBOOL, V = %(t)r, %(size)d, %(signed)r, %(isbool)r, %(v)d
ffi = cffi.FFI()
lo, hi = ((-(1 << (8 * SIZE - 1)), (1 << (8 * SIZE - 1)) - 1) if SIGNED else (0, (1 << (8 * SIZE)) - 1))
if ISBOOL:
    lo, hi = 0, 1
bad = []
for label, store in (("new", lambda p, v: ffi.new(T + "*", v)), ("item", None), ("field", None)):
    if label == "new":
        try:
            p = ffi.new(T + "*", V); acc = True
        except OverflowError:
            acc = False
        got = int(p[0]) if acc else None
    elif label == "item":
        p = ffi.new(T + "[1]")
        p[0] = 1
        try:
            p[0] = V; acc = True
        except OverflowError:
            acc = False
        got = int(p[0])
        if not acc and got != 1:
            bad.append("item: rejected store of %%r changed the target from 1 to %%r" %% (V, got))
    else:
        ffi2 = cffi.FFI(); ffi2.cdef("struct s { %%s f; };" %% T)
        p = ffi2.new("struct s *")
        p.f = 1
        try:
            p.f = V; acc = True
        except OverflowError:
            acc = False
        got = int(p.f)
        if not acc and got != 1:
            bad.append("field: rejected store of %%r changed the target from 1 to %%r" %% (V, got))
    if acc != (lo <= V <= hi):
        bad.append("%%s: store of %%r %%s, range is [%%r, %%r]" %% (label, V, "accepted" if acc else "rejected", lo, hi))
    elif acc and got != V:
        bad.append("%%s: stored %%r, read back %%r" %% (label, V, got))
if bad:
    print("FAIL %%s: %%s" %% (T, "; ".join(bad))); sys.exit(1)
print("ok")
'''


def concretise(ob, model):
    if 'v_sat80' not in model and 'v_wide' not in model:
        return None
    if 'v_sat80' in model:
        v = model['v_sat80']
        v = v - (1 << 80) if v >= 1 << 79 else v
    else:
        v = model['v_wide']
        v = v - (1 << S.WIDE) if v >= 1 << (S.WIDE - 1) else v
    name = ob.name
    size, signed, isbool = model.get('size'), None, False
    if 'flags' in model:
        signed = bool(model['flags'] & 1)
        isbool = bool(model['flags'] & ints.CT_IS_BOOL)
    for bits in (8, 16, 32, 64):
        for s in ('i', 'u'):
            if '_cffi_to_c_%s%d' % (s, bits) in name:
                size, signed = bits // 8, s == 'i'
    if '_cffi_to_c__Bool' in name:
        size, signed, isbool = 1, False, True
    if size is None or signed is None:
        # converters without a type of their own: probe through long long / unsigned long long
        size, signed = 8, 'Unsigned' not in name
    t = '_Bool' if isbool else TYPES.get((size, signed))
    if t is None:
        return None
    return REPLAY % dict(t=t, size=size, signed=signed, isbool=isbool, v=v)


def main(tier, seed):
    return driver.run_c_property(
        PID, tier, seed, allc.R, FUNCS, lemmas=lemmas, concretise=concretise, more=header_obligations,
        trusted=["scope: Python-int sources and integer ctypes (incl. _Bool and enums' base types); sources of other "
                 "Python types go through __int__/__index__ (arbitrary code) and are outside the proved scope",
                 "not decided here: libffi delivering the 8-byte callback result; the compiled call in generated "
                 "modules (see level_note)"],
        technique="contract-based deductive verification: contracts on the real C converters, VCs from clang's AST, "
                  "z3 bit-vectors; API-mode header macros verified from the real _cffi_include.h")


# -- the header macros _cffi_to_c_int / _cffi_from_c_int, instantiated from the real _cffi_include.h ------------

def header_obligations(rep, backend_tu):
    from vf import hdrinst, cexec
    from vf.cexec import Contract, Frame
    from contracts.c.base import is_long, int_w, wv, exc, sx, zx
    htu = hdrinst.make_tu()
    R = allc.R
    R.layout_tu = backend_tu
    saved = R.models.get('<indirect>')
    R.models['<indirect>'] = hdrinst.export_call_model(backend_tu, R)
    names = []
    try:
        for t in hdrinst.INT_TYPES:
            nm = 'inst_to_c_' + hdrinst.ident(t)
            fd = htu.functions[nm]
            ct = htu.parse_type(fd['type']['qualType'].split('(')[0].strip())
            bits, signed = ct.bits, ct.signed
            lo = -(1 << (bits - 1)) if signed else 0
            hi = (1 << (bits - 1)) - 1 if signed else (1 << bits) - 1

            class ToC(Contract):
                name = nm

                def pre(self, c):
                    return [('o-valid', c.valid(c['o'], 16)), ('no-pending-exception', c.old.err == 0)]

                def frame(self, c):
                    return Frame(err=True, havoc_if=z3.Not(is_long(c, c.old, c['o'])))

                def witness(self, c):
                    return {'v_sat80': int_w(c['o'])}

                def post(self, c, lo=lo, hi=hi, bits=bits):
                    il = is_long(c, c.old, c['o'])
                    w = int_w(c['o'])
                    ok = z3.And(w >= wv(lo), w <= wv(hi))
                    return [('in T range: the value, no error',
                             z3.Implies(z3.And(il, ok), z3.And(c.result == z3.Extract(bits - 1, 0, w), c.new.err == 0))),
                            ('outside T range: OverflowError and (T)-1',
                             z3.Implies(z3.And(il, z3.Not(ok)),
                                        z3.And(c.new.err == exc(c.ex, 'OverflowError'), c.result == BV(-1, bits))))]
            R.contracts[nm] = ToC()
            names.append(nm)
            nm2 = 'inst_from_c_' + hdrinst.ident(t)

            class FromC(Contract):
                name = nm2

                def post(self, c, signed=signed):
                    r = c.result
                    x = c['x']
                    return [('int object with the value of x',
                             z3.And(r != 0, is_long(c, c.new, r), int_w(r) == (sx(x) if signed else zx(x)),
                                    c.new.err == c.old.err))]
            R.contracts[nm2] = FromC()
            names.append(nm2)
        gens = driver.gen_c_obligations(htu, R, names, rep)
    finally:
        if saved is not None:
            R.models['<indirect>'] = saved
    obs, covers = [], []
    used = {}
    for nm, o, c, ex in gens:
        obs += o
        covers += c
        used.update(getattr(ex, 'export_used', {}))
    rep.extra['header_macro_instances'] = len(names)
    rep.extra['export_table_entries_resolved'] = {str(k): v for k, v in sorted(used.items())}
    return obs, covers
